"""Local definitions, reaching definitions and provenance (``derives``)."""

import ast

from . import astutil as A
from .cfg import cfg_of


class Def:
    __slots__ = ('name', 'stmt', 'value', 'kind', 'node')

    def __init__(self, name, stmt, value, kind, node=None):
        self.name = name
        self.stmt = stmt
        self.value = value    # expression the name is bound to, or None
        self.kind = kind      # assign | aug | for | with | param | unpack |
        #                       except | import | def
        self.node = node

    def __repr__(self):
        return '<def %s %s %s>' % (self.name, self.kind, A.short(self.value))


def _unpack_pairs(target, value):
    """Yield (name target, value expr or None, kind)."""
    if isinstance(target, ast.Name):
        yield target, value, 'assign'
    elif isinstance(target, (ast.Tuple, ast.List)):
        if isinstance(value, (ast.Tuple, ast.List)) and \
                len(value.elts) == len(target.elts) and not any(
                    isinstance(e, ast.Starred) for e in target.elts):
            for t, v in zip(target.elts, value.elts):
                yield from _unpack_pairs(t, v)
        else:
            for i, t in enumerate(target.elts):
                if isinstance(t, ast.Starred):
                    t = t.value
                for nt, _, _ in _unpack_pairs(t, None):
                    yield nt, value, 'unpack'


def local_defs(fnode):
    """name -> [Def] for every binding of a local in ``fnode``."""
    defs = {}

    def add(name, stmt, value, kind):
        defs.setdefault(name, []).append(Def(name, stmt, value, kind))

    if not isinstance(fnode, ast.Lambda):
        a = fnode.args
        for p in a.posonlyargs + a.args + a.kwonlyargs:
            add(p.arg, fnode, None, 'param')
        if a.vararg:
            add(a.vararg.arg, fnode, None, 'param')
        if a.kwarg:
            add(a.kwarg.arg, fnode, None, 'param')
    for n in A.walk_no_nested(fnode):
        if isinstance(n, ast.Assign):
            for t in n.targets:
                for nt, v, kind in _unpack_pairs(t, n.value):
                    add(nt.id, n, v, kind)
        elif isinstance(n, ast.AnnAssign) and isinstance(n.target, ast.Name):
            if n.value is not None:
                add(n.target.id, n, n.value, 'assign')
        elif isinstance(n, ast.AugAssign) and isinstance(n.target, ast.Name):
            add(n.target.id, n, n, 'aug')
        elif isinstance(n, (ast.For, ast.AsyncFor)):
            for nt, v, kind in _unpack_pairs(n.target, None):
                add(nt.id, n, n.iter, 'for')
        elif isinstance(n, ast.comprehension):
            for nt, v, kind in _unpack_pairs(n.target, None):
                add(nt.id, n, n.iter, 'for')
        elif isinstance(n, (ast.With, ast.AsyncWith)):
            for it in n.items:
                if it.optional_vars is not None:
                    for nt, v, kind in _unpack_pairs(it.optional_vars, None):
                        add(nt.id, n, it.context_expr, 'with')
        elif isinstance(n, ast.ExceptHandler) and n.name:
            add(n.name, n, None, 'except')
        elif isinstance(n, ast.NamedExpr) and isinstance(n.target, ast.Name):
            add(n.target.id, n, n.value, 'assign')
        elif isinstance(n, (ast.FunctionDef, ast.AsyncFunctionDef)) \
                and n is not fnode:
            add(n.name, n, None, 'def')
        elif isinstance(n, ast.Expr) and isinstance(n.value, ast.Call) and \
                isinstance(n.value.func, ast.Attribute) and isinstance(
                    n.value.func.value, ast.Name) and n.value.func.attr in (
                    'append', 'extend', 'insert', 'update', 'add') and \
                n.value.args:
            # in-place growth of a local container keeps its provenance and
            # adds the argument's
            add(n.value.func.value.id, n, n.value.args[-1], 'mutate')
    return defs


class Reaching:
    """Classic reaching definitions over the statement CFG for locals."""

    def __init__(self, fnode):
        self.fnode = fnode
        self.cfg = cfg_of(fnode)
        self.defs = local_defs(fnode)
        self.gen = {}      # node -> {name: [Def]}
        for name, lst in self.defs.items():
            for d in lst:
                if d.kind == 'param':
                    n = self.cfg.entry
                elif isinstance(d.stmt, ast.comprehension):
                    n = self.cfg.node(d.stmt)
                else:
                    n = self.cfg.node(d.stmt)
                d.node = n
                if n is None:
                    continue
                self.gen.setdefault(n, {}).setdefault(name, []).append(d)
        self._solve()

    def _solve(self):
        g = self.cfg.g
        self.IN = {n: {} for n in g.nodes}
        self.OUT = {n: {} for n in g.nodes}
        work = list(g.nodes)
        while work:
            n = work.pop()
            inn = {}
            for p in g.predecessors(n):
                for name, ds in self.OUT[p].items():
                    inn.setdefault(name, set()).update(ds)
            self.IN[n] = inn
            out = {k: set(v) for k, v in inn.items()}
            for name, ds in self.gen.get(n, {}).items():
                # a for-loop header both keeps older defs (zero iterations)
                # and generates the target binding
                kinds = {d.kind for d in ds}
                if kinds <= {'for'} and not isinstance(
                        ds[0].stmt, ast.comprehension):
                    out.setdefault(name, set()).update(ds)
                elif kinds <= {'mutate'}:
                    out.setdefault(name, set()).update(ds)
                elif isinstance(ds[0].stmt, ast.comprehension):
                    pass    # comprehension targets are not function locals
                else:
                    out[name] = set(ds)
            if out != self.OUT[n]:
                self.OUT[n] = out
                work.extend(g.successors(n))

    def at(self, stmt_or_expr, name):
        """Definitions of ``name`` reaching the statement that contains the
        given AST node (before the statement executes)."""
        n = self.cfg.node(stmt_or_expr)
        if n is None:
            return set()
        return set(self.IN[n].get(name, ()))


_reach_cache = {}


def reaching(fnode):
    k = id(fnode)
    if k not in _reach_cache or _reach_cache[k][0] is not fnode:
        _reach_cache[k] = (fnode, Reaching(fnode))
    return _reach_cache[k][1]


def derives(fnode, expr, pred, depth=8, at=None, _seen=None):
    """May-provenance: does ``expr`` mention a sub-expression satisfying
    ``pred``, directly or through the definitions of the locals it mentions?
    With ``at`` (an AST node) the definitions are the ones *reaching* that
    point, otherwise all definitions in the function (flow-insensitive)."""
    if expr is None:
        return False
    _seen = _seen if _seen is not None else set()
    for n in ast.walk(expr):
        try:
            if pred(n):
                return True
        except Exception:
            pass
    if depth <= 0:
        return False
    rd = reaching(fnode) if at is not None else None
    alldefs = local_defs(fnode) if at is None else None
    for n in ast.walk(expr):
        if isinstance(n, ast.Name) and isinstance(n.ctx, ast.Load):
            ds = rd.at(at, n.id) if rd is not None else alldefs.get(n.id, [])
            for d in ds:
                if d.value is None:
                    continue
                key = (n.id, id(d.stmt))
                if key in _seen:
                    continue
                _seen.add(key)
                val = d.value
                if d.kind == 'aug':
                    val = d.stmt.value
                if derives(fnode, val, pred, depth - 1,
                           at=(d.stmt if at is not None else None),
                           _seen=_seen):
                    return True
                if d.kind == 'aug' and at is not None:
                    # x += v also keeps x's earlier provenance
                    for d2 in rd.at(d.stmt, n.id):
                        if d2.value is not None and d2.kind != 'aug' and \
                                derives(fnode, d2.value, pred, depth - 1,
                                        at=d2.stmt, _seen=_seen):
                            return True
    return False


def single_def(fnode, name, at):
    """The unique definition of ``name`` reaching ``at``, or None."""
    ds = reaching(fnode).at(at, name)
    if len(ds) == 1:
        return next(iter(ds))
    return None


def resolve_local(fnode, expr, at, depth=6):
    """Follow single reaching definitions of plain local names:
    ``x`` -> the expression it was assigned from (when unique)."""
    cur = expr
    where = at
    while depth > 0 and isinstance(cur, ast.Name):
        d = single_def(fnode, cur.id, where)
        if d is None or d.value is None or d.kind not in ('assign',):
            break
        cur = d.value
        where = d.stmt
        depth -= 1
    return cur


def expand(fnode, expr, at, depth=4):
    """Copy of ``expr`` in which every plain local name that has exactly one
    reaching definition at ``at`` - a simple assignment - is replaced by the
    (expanded) assigned expression.  Parameters, loop variables and names
    with several reaching definitions stay as they are.  Used by shape rules
    so that an intermediate local (``args = (a, b); f(args)``) reads like the
    direct form (``f((a, b))``)."""
    import copy

    def go(e, where, depth):
        if isinstance(e, ast.Name) and isinstance(e.ctx, ast.Load):
            if depth <= 0:
                return e
            d = single_def(fnode, e.id, where)
            if d is None or d.value is None or d.kind != 'assign':
                return e
            if not isinstance(d.stmt, (ast.Assign, ast.AnnAssign)):
                return e
            # the definition itself must be a plain ``name = value``
            tg = d.stmt.targets[0] if isinstance(d.stmt, ast.Assign) \
                else d.stmt.target
            if not (isinstance(tg, ast.Name) and tg.id == e.id):
                return e
            return go(d.value, d.stmt, depth - 1)
        if isinstance(e, (ast.Lambda, ast.ListComp, ast.SetComp,
                          ast.DictComp, ast.GeneratorExp)):
            return e
        new = None      # copy on write: untouched subtrees keep identity
        for f, v in ast.iter_fields(e):
            if isinstance(v, ast.AST):
                nv = go(v, where, depth)
                changed = nv is not v
            elif isinstance(v, list):
                nv = [go(x, where, depth) if isinstance(x, ast.AST) else x
                      for x in v]
                changed = any(a is not b for a, b in zip(nv, v))
            else:
                continue
            if changed:
                if new is None:
                    new = copy.copy(e)
                setattr(new, f, nv)
        return e if new is None else new
    return go(expr, at, depth)


def derives_must(fnode, expr, pred, at, depth=6):
    """Must-provenance for a plain local name: *every* definition reaching
    ``at`` is an assignment whose value derives (may) from ``pred``;
    parameters and unknown bindings do not count.  For other expressions it
    is the may-provenance of the expression itself."""
    if isinstance(expr, ast.Name):
        ds = reaching(fnode).at(at, expr.id)
        if not ds:
            return False
        for d in ds:
            if d.kind in ('param', 'except', 'def', 'with') or \
                    d.value is None:
                return False
            if d.kind == 'mutate':
                continue
            if not derives(fnode, d.value, pred, depth, at=d.stmt):
                return False
        return True
    return derives(fnode, expr, pred, depth, at=at)


def source_list(fnode, name, depth=3):
    """Follow ``X = [f(e) for e in Y]`` (no filter) - or the equivalent
    ``X = []; for e in Y: X.append(f(e))`` - back to the list the elements
    originally come from.  Returns (source name, [element builders passed
    through]); an element builder is a ListComp, or a (For, append Call)
    pair for the loop form."""
    comps = []
    cur = name
    while depth > 0:
        alld = local_defs(fnode).get(cur, [])
        ds = [d for d in alld if d.kind != 'mutate']
        muts = [d for d in alld if d.kind == 'mutate']
        if len(ds) == 1 and isinstance(ds[0].value, ast.ListComp) and \
                not muts:
            lc = ds[0].value
            if len(lc.generators) != 1 or lc.generators[0].ifs or \
                    not isinstance(lc.generators[0].iter, ast.Name):
                break
            comps.append(lc)
            cur = lc.generators[0].iter.id
            depth -= 1
            continue
        if len(ds) == 1 and isinstance(ds[0].value, ast.List) and \
                not ds[0].value.elts and len(muts) == 1:
            call = muts[0].stmt.value
            loop = getattr(muts[0].stmt, '_parent', None)
            if isinstance(loop, ast.For) and isinstance(
                    loop.iter, ast.Name) and call.func.attr == 'append' \
                    and len(loop.body) == 1 and not loop.orelse:
                comps.append((loop, call))
                cur = loop.iter.id
                depth -= 1
                continue
        break
    return cur, comps


def dict_entries(fnode, name):
    """Entries written into the local dict ``name``: a list of
    (constant key or None, value expression, statement) collected from
    ``name = {...}``, ``name = dict(k=v)``, ``name.update({...})``,
    ``name.update(k=v)`` and ``name[k] = v``."""
    out = []

    def from_dict(d, stmt):
        for k, v in zip(d.keys, d.values):
            out.append((k.value if isinstance(k, ast.Constant) else None,
                        v, stmt))

    for n in A.walk_no_nested(fnode):
        if isinstance(n, ast.Assign):
            for t in n.targets:
                if isinstance(t, ast.Name) and t.id == name:
                    if isinstance(n.value, ast.Dict):
                        from_dict(n.value, n)
                    elif isinstance(n.value, ast.Call) and A.call_name(
                            n.value) == 'dict':
                        for kw in n.value.keywords:
                            out.append((kw.arg, kw.value, n))
                        for a in n.value.args:
                            if isinstance(a, ast.Dict):
                                from_dict(a, n)
                if isinstance(t, ast.Subscript) and isinstance(
                        t.value, ast.Name) and t.value.id == name:
                    k = t.slice
                    out.append((k.value if isinstance(k, ast.Constant)
                                else None, n.value, n))
        elif isinstance(n, ast.Call) and A.call_name(n) == 'update' and \
                isinstance(n.func, ast.Attribute) and isinstance(
                    n.func.value, ast.Name) and n.func.value.id == name:
            for a in n.args:
                if isinstance(a, ast.Dict):
                    from_dict(a, n)
            for kw in n.keywords:
                out.append((kw.arg, kw.value, n))
    return out
