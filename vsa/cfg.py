"""Statement-level control-flow graph on networkx.

Nodes are integers; ``info[n]`` carries ``kind`` in
{entry, exit, raise, stmt, test, edge, for, except} and the AST statement.
Every branch out-edge runs through a synthetic *edge node* carrying the test
expression and its polarity, so that "the guards of a node" are simply its
dominating edge nodes.  Constant tests are folded: the dead side of
``if False and c`` does not exist in the graph.
"""

import ast

import networkx as nx

from . import astutil as A


class CFG:
    def __init__(self, fnode):
        self.fnode = fnode
        self.g = nx.DiGraph()
        self.info = {}
        self._n = 0
        self.stmt_node = {}
        self.loops = {}          # id(loop stmt) -> dict
        self.entry = self._new('entry')
        self.exit = self._new('exit')
        self.raise_exit = self._new('raise')
        self._loop_stack = []
        self._try_stack = []
        body = fnode.body if hasattr(fnode, 'body') else []
        if isinstance(fnode, ast.Lambda):
            n = self._new('stmt', fnode.body)
            self.g.add_edge(self.entry, n)
            self.g.add_edge(n, self.exit)
        else:
            outs = self._seq(body, [self.entry])
            for o in outs:
                self.g.add_edge(o, self.exit)
        self._idom = None
        self._ipdom = None
        self._domsets = {}
        self._pdomsets = {}

    # ------------------------------------------------------------ building
    def _new(self, kind, stmt=None, **kw):
        n = self._n
        self._n += 1
        self.g.add_node(n)
        d = {'kind': kind, 'stmt': stmt}
        d.update(kw)
        self.info[n] = d
        return n

    def _link(self, preds, n):
        for p in preds:
            self.g.add_edge(p, n)

    def _may_raise(self, n):
        if self._try_stack:
            for h in self._try_stack[-1]:
                self.g.add_edge(n, h)

    def _seq(self, stmts, preds):
        cur = list(preds)
        for s in stmts:
            if not cur:
                break       # unreachable code after return/raise/continue
            cur = self._stmt(s, cur)
        return cur

    def _branch(self, test_node, test, polarity):
        e = self._new('edge', self.info[test_node]['stmt'], cond=test,
                      pol=polarity)
        self.g.add_edge(test_node, e)
        return e

    def _stmt(self, s, preds):
        if isinstance(s, ast.If):
            t = self._new('test', s)
            self.stmt_node[id(s)] = t
            self._link(preds, t)
            self._may_raise(t)
            ok, v = A.const_value(s.test)
            outs = []
            if not ok or v:
                e = self._branch(t, s.test, True)
                outs += self._seq(s.body, [e])
            if not ok or not v:
                e = self._branch(t, s.test, False)
                outs += self._seq(s.orelse, [e])
            return outs
        if isinstance(s, ast.While):
            t = self._new('test', s)
            self.stmt_node[id(s)] = t
            self._link(preds, t)
            self._may_raise(t)
            ok, v = A.const_value(s.test)
            loop = {'header': t, 'breaks': [], 'stmt': s, 'body_entry': None}
            self.loops[id(s)] = loop
            outs = []
            if not ok or v:
                e = self._branch(t, s.test, True)
                loop['body_entry'] = e
                self._loop_stack.append(loop)
                bouts = self._seq(s.body, [e])
                self._loop_stack.pop()
                for b in bouts:
                    self.g.add_edge(b, t)
            if not ok or not v:
                e = self._branch(t, s.test, False)
                outs += self._seq(s.orelse, [e])
            outs += loop['breaks']
            return outs
        if isinstance(s, (ast.For, ast.AsyncFor)):
            h = self._new('for', s)
            self.stmt_node[id(s)] = h
            self._link(preds, h)
            self._may_raise(h)
            loop = {'header': h, 'breaks': [], 'stmt': s}
            self.loops[id(s)] = loop
            e = self._new('edge', s, cond=None, pol='iter')
            self.g.add_edge(h, e)
            loop['body_entry'] = e
            self._loop_stack.append(loop)
            bouts = self._seq(s.body, [e])
            self._loop_stack.pop()
            for b in bouts:
                self.g.add_edge(b, h)
            d = self._new('edge', s, cond=None, pol='done')
            self.g.add_edge(h, d)
            outs = self._seq(s.orelse, [d])
            outs += loop['breaks']
            return outs
        if isinstance(s, ast.Try) or s.__class__.__name__ == 'TryStar':
            handlers = []
            for h in s.handlers:
                hn = self._new('except', h)
                self.stmt_node[id(h)] = hn
                handlers.append(hn)
            if handlers:
                self._try_stack.append(handlers)
            elif s.finalbody:
                self._try_stack.append([])
            outs = self._seq(s.body, preds)
            if handlers or s.finalbody:
                self._try_stack.pop()
            outs = self._seq(s.orelse, outs) if s.orelse else outs
            for h, hn in zip(s.handlers, handlers):
                outs += self._seq(h.body, [hn])
            if s.finalbody:
                outs = self._seq(s.finalbody, outs)
            return outs
        if isinstance(s, (ast.With, ast.AsyncWith)):
            n = self._new('stmt', s)
            self.stmt_node[id(s)] = n
            self._link(preds, n)
            self._may_raise(n)
            return self._seq(s.body, [n])
        if isinstance(s, ast.Return):
            n = self._new('stmt', s)
            self.stmt_node[id(s)] = n
            self._link(preds, n)
            self.g.add_edge(n, self.exit)
            return []
        if isinstance(s, ast.Raise):
            n = self._new('stmt', s)
            self.stmt_node[id(s)] = n
            self._link(preds, n)
            if self._try_stack and self._try_stack[-1]:
                self._may_raise(n)
            else:
                self.g.add_edge(n, self.raise_exit)
            return []
        if isinstance(s, ast.Break):
            n = self._new('stmt', s)
            self.stmt_node[id(s)] = n
            self._link(preds, n)
            if self._loop_stack:
                self._loop_stack[-1]['breaks'].append(n)
            return []
        if isinstance(s, ast.Continue):
            n = self._new('stmt', s)
            self.stmt_node[id(s)] = n
            self._link(preds, n)
            if self._loop_stack:
                self.g.add_edge(n, self._loop_stack[-1]['header'])
            return []
        if s.__class__.__name__ == 'Match':
            n = self._new('test', s)
            self.stmt_node[id(s)] = n
            self._link(preds, n)
            outs = [n]
            for c in s.cases:
                outs += self._seq(c.body, [n])
            return outs
        # simple statement (incl. nested def/class as a binding statement)
        n = self._new('stmt', s)
        self.stmt_node[id(s)] = n
        self._link(preds, n)
        self._may_raise(n)
        if isinstance(s, ast.Assert):
            self.g.add_edge(n, self.raise_exit)
        return [n]

    # ------------------------------------------------------------- queries
    def node(self, stmt):
        """CFG node of a statement (or of the statement enclosing an
        expression).  None when the statement is unreachable/folded away."""
        p = stmt
        while p is not None and id(p) not in self.stmt_node:
            p = getattr(p, '_parent', None)
            if p is self.fnode:
                return None
        if p is None:
            return None
        return self.stmt_node[id(p)]

    def reachable_nodes(self):
        return nx.descendants(self.g, self.entry) | {self.entry}

    def _dom(self):
        if self._idom is None:
            self._idom = nx.immediate_dominators(self.g, self.entry)
        return self._idom

    def _pdom(self):
        if self._ipdom is None:
            rev = self.g.reverse(copy=True)
            keep = nx.descendants(rev, self.exit) | {self.exit}
            rev = rev.subgraph(keep)
            self._ipdom = nx.immediate_dominators(rev, self.exit)
        return self._ipdom

    def domset(self, n):
        if n not in self._domsets:
            idom = self._dom()
            out = set()
            cur = n
            while cur in idom:
                out.add(cur)
                nxt = idom[cur]
                if nxt == cur:
                    break
                cur = nxt
            self._domsets[n] = out
        return self._domsets[n]

    def pdomset(self, n):
        if n not in self._pdomsets:
            ip = self._pdom()
            out = set()
            cur = n
            while cur in ip:
                out.add(cur)
                nxt = ip[cur]
                if nxt == cur:
                    break
                cur = nxt
            self._pdomsets[n] = out
        return self._pdomsets[n]

    def dominates(self, a, b):
        return a in self.domset(b)

    def postdominates(self, a, b):
        """Every path from ``b`` to the normal exit passes ``a``."""
        return a in self.pdomset(b)

    def guard_edges(self, n):
        """(cond, polarity) of every branch edge that dominates ``n``."""
        out = []
        for d in self.domset(n):
            i = self.info[d]
            if i['kind'] == 'edge' and i.get('cond') is not None:
                out.append((i['cond'], i['pol']))
        return out

    def guards(self, n):
        atoms = set()
        for cond, pol in self.guard_edges(n):
            atoms |= A.cond_atoms(cond, pol)
        return atoms

    def loop_nodes(self, loop_stmt):
        """Nodes of the loop body (reachable from the body entry without
        passing the header)."""
        loop = self.loops.get(id(loop_stmt))
        if not loop or loop['body_entry'] is None:
            return set()
        h = loop['header']
        seen = set()
        stack = [loop['body_entry']]
        while stack:
            x = stack.pop()
            if x in seen or x == h:
                continue
            seen.add(x)
            stack.extend(self.g.successors(x))
        # nodes after a break that are outside the loop syntactically are
        # excluded
        inside = set()
        for x in seen:
            st = self.info[x]['stmt']
            if st is None:
                continue
            if st is loop_stmt or _within(st, loop_stmt):
                inside.add(x)
        return inside

    def iter_dominates(self, loop_stmt, a, b):
        """``a`` dominates ``b`` within one iteration of the loop (back
        edges removed)."""
        loop = self.loops.get(id(loop_stmt))
        if not loop:
            return False
        nodes = self.loop_nodes(loop_stmt)
        if a not in nodes or b not in nodes:
            return False
        sub = self.g.subgraph(nodes).copy()
        entry = loop['body_entry']
        if entry not in sub:
            return False
        idom = nx.immediate_dominators(sub, entry)
        cur = b
        while cur in idom:
            if cur == a:
                return True
            nxt = idom[cur]
            if nxt == cur:
                break
            cur = nxt
        return False

    def reach_without(self, src, dst, blocked, within=None):
        """Is ``dst`` reachable from ``src`` on a path avoiding ``blocked``
        (src itself is not tested)?  ``within`` restricts the walk."""
        blocked = set(blocked)
        dsts = set(dst) if isinstance(dst, (set, list, tuple, frozenset)) \
            else {dst}
        seen = set()
        stack = list(self.g.successors(src))
        while stack:
            x = stack.pop()
            if x in seen:
                continue
            seen.add(x)
            if x in dsts:
                return True
            if x in blocked:
                continue
            if within is not None and x not in within:
                continue
            stack.extend(self.g.successors(x))
        return False

    def must_pass(self, src, dst, through, within=None):
        """Every path src -> dst passes a node of ``through`` (vacuously
        true when dst is unreachable)."""
        return not self.reach_without(src, dst, through, within)

    def stmt_nodes(self):
        return [n for n, i in self.info.items()
                if i['kind'] in ('stmt', 'test', 'for', 'except')]

    def nodes_where(self, pred):
        out = []
        live = self.reachable_nodes()
        for n in self.stmt_nodes():
            if n in live and pred(self.info[n]['stmt']):
                out.append(n)
        return out

    def header_exprs(self, n):
        """Expressions evaluated *at* node n (not its nested bodies)."""
        s = self.info[n]['stmt']
        k = self.info[n]['kind']
        if k == 'test':
            return [s.test] if hasattr(s, 'test') else [s.subject]
        if k == 'for':
            return [s.iter, s.target]
        if k == 'except':
            return [s.type] if s.type is not None else []
        if isinstance(s, (ast.With, ast.AsyncWith)):
            out = []
            for it in s.items:
                out.append(it.context_expr)
                if it.optional_vars is not None:
                    out.append(it.optional_vars)
            return out
        if isinstance(s, (ast.FunctionDef, ast.AsyncFunctionDef,
                          ast.ClassDef)):
            return []
        return [s] if s is not None else []


def _within(node, ancestor):
    p = node
    while p is not None:
        if p is ancestor:
            return True
        p = getattr(p, '_parent', None)
    return False


def within(node, ancestor):
    return _within(node, ancestor)


_cache = {}


def cfg_of(fnode):
    k = id(fnode)
    if k not in _cache or _cache[k][0] is not fnode:
        _cache[k] = (fnode, CFG(fnode))
    return _cache[k][1]
