"""Thorough tier and self-test.

The catalogue (``vsa/catalogue.json``) lists one-edit *seeded variants* of the
repository (property-breaking; every one that the unedited test-suite lets
through is marked) and *benign twins* (behaviour-preserving edits).  Variants
exist only as in-memory overlays: they are parsed and analysed, never
executed and never written to disk.  A rule that stays silent on a seeded
variant, or fires on a benign twin, is a defect of the *checker*; it is
reported in the evidence and by ``python -m vsa selftest --strict`` (exit 2),
which is part of the clean-tree run before every commit of /verif.
"""

import json
import os
import sys
import time
from multiprocessing import Pool
from pathlib import Path

from .loader import repo_root

CATALOGUE = Path(__file__).resolve().parent / 'catalogue.json'


SEEDED = Path(__file__).resolve().parent.parent / 'seeded'
BENIGN = Path(__file__).resolve().parent.parent / 'benign'


def load_catalogue():
    """One-edit variants of the catalogue plus the changes seeded by the
    independent sub-agents (/verif/seeded/<id>/patch.diff)."""
    out = list(json.loads(CATALOGUE.read_text())['variants'])
    if SEEDED.is_dir():
        for d in sorted(SEEDED.iterdir()):
            m = d / 'meta.json'
            if not m.exists() or not (d / 'patch.diff').exists():
                continue
            meta = json.loads(m.read_text())
            out.append({'id': meta['id'],
                        'property': meta['breaks_property'],
                        # a change that rewrites its function wholesale is
                        # answered "undecided" (exit 2) by the restructuring
                        # gate: accepted for the changes marked so, and
                        # counted separately
                        'allow_undecided': (d / 'undecided.txt').exists(),
                        'rule': '-', 'patch': str(d / 'patch.diff'),
                        'suite': 'SURVIVES', 'expect': 'fire',
                        'source': 'independent sub-agent',
                        'what': meta.get('needs_to_manifest', '')})
    if BENIGN.is_dir():
        # behaviour-preserving refactorings written by independent
        # sub-agents (suite 123 passed with each); every check must stay
        # silent on every one of them
        from .rules import RULES
        allp = sorted(RULES)
        for d in sorted(BENIGN.iterdir()):
            if not (d / 'patch.diff').exists():
                continue
            out.append({'id': d.name, 'property': allp[0],
                        'also': allp[1:], 'rule': '-',
                        'patch': str(d / 'patch.diff'), 'suite': 'BENIGN',
                        'expect': 'silent',
                        # a refactoring into an idiom no rule has a
                        # recogniser for: "undecided" (exit 2) is the
                        # accepted answer, a VIOLATION never is
                        'allow_undecided': (d / 'undecided.txt').exists(),
                        'source': 'independent sub-agent (refactoring)',
                        'what': 'behaviour-preserving refactoring'})
    return out


def overlay_from_patch(patch, root=None):
    """Apply a unified diff to temporary copies of the files it touches
    (never to the repository) and return {file: new source}, or None."""
    import re
    import shutil
    import subprocess
    import tempfile
    root = Path(root) if root else repo_root()
    text = Path(patch).read_text()
    files = sorted(set(re.findall(r'^\+\+\+ b/(\S+)', text, re.M)))
    base = '/dev/shm' if os.path.isdir('/dev/shm') else None
    tmp = Path(tempfile.mkdtemp(prefix='vsa_patch_', dir=base))
    try:
        for f in files:
            (tmp / f).parent.mkdir(parents=True, exist_ok=True)
            try:
                shutil.copy(root / f, tmp / f)
            except OSError:
                return None
        r = subprocess.run(['patch', '-p1', '-s', '--no-backup-if-mismatch',
                            '-i', str(Path(patch).resolve())],
                           cwd=tmp, capture_output=True, text=True)
        if r.returncode != 0:
            return None
        return {f: (tmp / f).read_text() for f in files}
    finally:
        shutil.rmtree(tmp, ignore_errors=True)


def make_overlay(variant, root=None):
    """{file: new source} or None when the text no longer matches."""
    root = Path(root) if root else repo_root()
    if variant.get('patch'):
        return overlay_from_patch(variant['patch'], root)
    overlay = {}
    edits = variant.get('edits') or [{
        'file': variant['file'], 'old': variant['old'],
        'new': variant['new']}]
    for e in edits:
        src = overlay.get(e['file'])
        if src is None:
            try:
                src = (root / e['file']).read_text()
            except OSError:
                return None
        if src.count(e['old']) != 1:
            return None
        overlay[e['file']] = src.replace(e['old'], e['new'])
    return overlay


def _run_variant(args):
    variant, props = args
    from .__main__ import run_check
    overlay = make_overlay(variant)
    if overlay is None:
        return variant['id'], 'stale', {}
    res = {}
    from .__main__ import parse_tree, clear_caches
    clear_caches()
    rp = parse_tree(overlay=overlay)
    for p in props:
        ck = run_check(p, 'quick', write=False, quiet=True, repo=rp)
        res[p] = {
            'status': ck.status,
            'error': ck.error,
            # what the command reports: unlisted violations that passed the
            # restructuring gate (none when the run is undecided)
            'keys': sorted({'%s|%s|%s' % (v.rule, v.function, v.construct)
                            for v in (ck.unlisted if ck.status != 2
                                      else [])} | (
                {'%s|%s|%s' % (v.rule, v.function, v.construct)
                 for v in getattr(ck, 'listed', [])})),
        }
    return variant['id'], 'ran', res


def run_catalogue(props, jobs=16, only=None):
    """Run catalogue entries whose ``property`` is in ``props``.
    Returns (summary dict, details list)."""
    from .__main__ import run_check
    cat = [v for v in load_catalogue()
           if (v['property'] in props or (
               v['expect'] == 'silent' and set(v.get('also', [])) &
               set(props))) and (only is None or v['id'] in only)]
    # a twin is judged on the requested properties only
    cat = [dict(v, property=([p for p in [v['property']] + list(
        v.get('also', [])) if p in props] or [v['property']])[0],
        also=[p for p in [v['property']] + list(v.get('also', []))
              if p in props][1:]) if v['expect'] == 'silent' else v
           for v in cat]
    base = {}
    allp = set(props)
    for v in cat:
        allp |= set(v.get('also', []))
    from .__main__ import parse_tree
    r0 = parse_tree()
    for p in sorted(allp):
        ck = run_check(p, 'quick', write=False, quiet=True, repo=r0)
        base[p] = {'status': ck.status, 'error': ck.error,
                   'keys': {'%s|%s|%s' % (v.rule, v.function, v.construct)
                            for v in ck.violations}}
    work = [(v, [v['property']] + list(v.get('also', []))) for v in cat]
    if jobs > 1 and len(work) > 1:
        with Pool(min(jobs, len(work))) as pool:
            results = pool.map(_run_variant, work, chunksize=1)
    else:
        results = [_run_variant(w) for w in work]
    byid = {v['id']: v for v in cat}
    details = []
    s = {'seeded_total': 0, 'seeded_fired': 0, 'benign_total': 0,
         'benign_silent': 0, 'stale': 0, 'errors': 0, 'failures': []}
    for vid, state, res in results:
        v = byid[vid]
        expect = v['expect']
        if state == 'stale':
            s['stale'] += 1
            details.append({'id': vid, 'state': 'stale'})
            continue
        p = v['property']
        r = res[p]
        b = base.get(p) or {'keys': set(), 'status': 0}
        new = sorted(set(r['keys']) - set(b['keys']))
        fired = bool(new)
        if r['status'] == 2:
            s['errors'] += 1
        # benign twins must be silent for every property they list
        also_bad = []
        if expect == 'silent':
            for q in v.get('also', []):
                rq = res.get(q)
                if rq is None:
                    continue
                bq = base.get(q) or {'keys': set()}
                nq = sorted(set(rq['keys']) - set(bq['keys']))
                if nq or (rq['status'] == 2 and not v.get(
                        'allow_undecided')):
                    also_bad.append((q, sorted({k.split('|')[0]
                                                for k in nq})
                                     or rq['error']))
            if also_bad:
                fired = True
                new = new + ['%s|also|' % x[1] for x in also_bad]
        rules = sorted({k.split('|')[0] for k in new})
        d = {'id': vid, 'property': p, 'expect': expect, 'fired': fired,
             'rules': rules, 'status': r['status'],
             'suite': v.get('suite'), 'what': v.get('what', '')}
        if r['error']:
            d['error'] = r['error']
        if expect == 'fire':
            s['seeded_total'] += 1
            if fired:
                s['seeded_fired'] += 1
            elif r['status'] == 2 and v.get('allow_undecided'):
                s['seeded_undecided'] = s.get('seeded_undecided', 0) + 1
            else:
                s['failures'].append(
                    '%s: seeded variant not detected (%s)' % (
                        vid, r['error'] or 'silent'))
        elif expect == 'silent':
            s['benign_total'] += 1
            if not fired and (r['status'] != 2 or v.get('allow_undecided')):
                s['benign_silent'] += 1
            else:
                s['failures'].append('%s: benign twin raised %s' % (
                    vid, rules or r['error']))
        details.append(d)
    return s, details


def run_thorough(prop, jobs=16):
    """Thorough tier: the rules at thorough depth on the current tree (the
    verdict) plus the catalogue for this property (evidence)."""
    from .__main__ import run_check
    from .report import Check
    t0 = time.time()
    try:
        summary, details = run_catalogue([prop], jobs)
    except Exception as e:      # the self-test must never mask the verdict
        summary, details = {'error': repr(e)}, []
    ck = run_check(prop, 'thorough', write=False, quiet=True)
    if ck.status == 2:
        print(ck.error)
        return 2
    ck.selftest = dict(summary)
    ck.selftest['details'] = details
    ck.t0 = t0
    status = ck.finish(write=True, quiet=False)
    print('%s self-test: %d/%d seeded variants detected, %d/%d benign twins '
          'silent, %d stale' % (
              prop, summary.get('seeded_fired', 0),
              summary.get('seeded_total', 0),
              summary.get('benign_silent', 0),
              summary.get('benign_total', 0), summary.get('stale', 0)))
    for f in summary.get('failures', []):
        print('SELFTEST-NOTE:', f)
    return status


def main(argv=None):
    import argparse
    from .rules import RULES
    ap = argparse.ArgumentParser(prog='vsa.selftest')
    ap.add_argument('props', nargs='*')
    ap.add_argument('--strict', action='store_true')
    ap.add_argument('--jobs', type=int, default=16)
    ap.add_argument('--only', nargs='*')
    ap.add_argument('-v', action='store_true')
    args = ap.parse_args(argv)
    props = [p.upper() for p in args.props] or sorted(RULES)
    summary, details = run_catalogue(props, args.jobs, args.only)
    for d in details:
        if args.v or d.get('state') == 'stale' or (
                d.get('expect') == 'fire') != d.get('fired'):
            print(json.dumps(d))
    print(json.dumps({k: v for k, v in summary.items()
                      if k != 'failures'}))
    for f in summary['failures']:
        print('SELFTEST-FAILURE:', f)
    if args.strict and (summary['failures'] or summary['stale']):
        return 2
    return 0


if __name__ == '__main__':
    code = main()
    sys.stdout.flush()
    os._exit(code)
