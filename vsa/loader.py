"""Loader and unit index.

Parses every ``vivarium/**/*.py`` of the tree rooted at ``VSA_REPO`` (default
/repo).  An in-memory *overlay* ``{relative path: source}`` overrides single
files; it is only used by the self-test, so no scratch copy touches the disk.
"""

import ast
import hashlib
import os
from pathlib import Path


class AnalysisError(Exception):
    """The analysis cannot be carried out (anchor vanished, floor not met,
    unparsable file).  Never reported as a violation: exit status 2."""


def repo_root():
    return Path(os.environ.get('VSA_REPO', '/repo'))


class FuncInfo:
    __slots__ = ('name', 'qual', 'module', 'cls', 'node', 'file', 'is_test',
                 'nested_in')

    def __init__(self, name, qual, module, cls, node, file, is_test,
                 nested_in=None):
        self.name = name
        self.qual = qual          # e.g. 'Engine.run_for' or 'inverse_topology'
        self.module = module      # e.g. 'vivarium.core.engine'
        self.cls = cls            # class name or None
        self.node = node
        self.file = file          # path relative to repo root
        self.is_test = is_test
        self.nested_in = nested_in

    @property
    def fq(self):
        return self.module + '.' + self.qual

    @property
    def lineno(self):
        return self.node.lineno

    def __repr__(self):
        return '<fn %s>' % self.fq


class ClassInfo:
    __slots__ = ('name', 'module', 'node', 'bases', 'methods', 'file',
                 'is_test', 'assigns')

    def __init__(self, name, module, node, file, is_test):
        self.name = name
        self.module = module
        self.node = node
        self.file = file
        self.is_test = is_test
        self.bases = []
        for b in node.bases:
            if isinstance(b, ast.Name):
                self.bases.append(b.id)
            elif isinstance(b, ast.Attribute):
                self.bases.append(b.attr)
        self.methods = {}   # name -> FuncInfo (property getter wins the name;
        #                     setter stored as name + '.setter')
        self.assigns = {}   # class-level NAME = value

    def __repr__(self):
        return '<class %s.%s>' % (self.module, self.name)


class ModuleInfo:
    __slots__ = ('name', 'file', 'source', 'tree', 'imports', 'functions',
                 'classes', 'assigns', 'digest')

    def __init__(self, name, file, source, tree):
        self.name = name
        self.file = file
        self.source = source
        self.tree = tree
        self.imports = {}     # local name -> (module, original name or None)
        self.functions = {}   # module-level functions
        self.classes = {}
        self.assigns = {}     # module-level NAME = value
        self.digest = hashlib.sha256(source.encode()).hexdigest()[:16]


def _is_test_name(name):
    return (name.startswith('test_') or name.startswith('Test')
            or name.startswith('Toy') or name.startswith('_test'))


def set_parents(tree):
    for node in ast.walk(tree):
        for child in ast.iter_child_nodes(node):
            child._parent = node
    tree._parent = None


class Repo:
    """Parsed tree + index."""

    def __init__(self, root=None, overlay=None):
        self.root = Path(root) if root else repo_root()
        self.overlay = dict(overlay or {})
        self.modules = {}
        self.functions = []       # every FuncInfo, nested ones included
        self.classes = {}         # name -> [ClassInfo]
        self._by_qual = {}
        self.parse_errors = []
        self.inlined = []
        self.canonical = {}
        self._load()

    # ------------------------------------------------------------------ load
    def _load(self):
        pkg = self.root / 'vivarium'
        if not pkg.is_dir():
            raise AnalysisError('no vivarium package under %s' % self.root)
        files = sorted(pkg.rglob('*.py'))
        rels = {str(p.relative_to(self.root)) for p in files}
        rels |= set(self.overlay)
        parsed = []
        for rel in sorted(rels):
            if rel in self.overlay:
                src = self.overlay[rel]
            else:
                try:
                    src = (self.root / rel).read_text()
                except OSError as e:
                    raise AnalysisError('cannot read %s: %s' % (rel, e))
            try:
                tree = ast.parse(src, filename=rel)
            except SyntaxError as e:
                raise AnalysisError('cannot parse %s: %s' % (rel, e))
            modname = rel[:-3].replace('/', '.')
            if modname.endswith('.__init__'):
                modname = modname[:-len('.__init__')]
            parsed.append((modname, rel, src, tree))
        # normalisation: new private helpers are inlined into their callers
        from .normalize import inline_new_helpers, canonicalise
        trees = {m: t for m, _r, _s, t in parsed}
        try:
            self.inlined = inline_new_helpers(trees)
        except RuntimeError as e:
            raise AnalysisError(str(e))
        before = {m: _free_names(t) for m, t in trees.items()}
        if not os.environ.get('VSA_NO_CANON'):
            self.canonical = canonicalise(trees)
        # the rewrites may not invent reads: every name a function reads
        # without binding it was read by the module before (guards the
        # analyser against a faulty canonical pass - never a silent pass)
        for m, t in trees.items():
            new = _free_names(t) - before[m]
            if new:
                raise AnalysisError(
                    'canonical form of %s reads names the source does not: '
                    '%s' % (m, sorted(new)[:5]))
        for modname, rel, src, tree in parsed:
            set_parents(tree)
            mod = ModuleInfo(modname, rel, src, tree)
            self.modules[modname] = mod
            self._index_module(mod)

    def _index_module(self, mod):
        for node in mod.tree.body:
            if isinstance(node, ast.ImportFrom) and node.module:
                for a in node.names:
                    mod.imports[a.asname or a.name] = (node.module, a.name)
            elif isinstance(node, ast.Import):
                for a in node.names:
                    mod.imports[a.asname or a.name.split('.')[0]] = (
                        a.name, None)
            elif isinstance(node, (ast.FunctionDef, ast.AsyncFunctionDef)):
                fi = FuncInfo(node.name, node.name, mod.name, None, node,
                              mod.file, _is_test_name(node.name))
                mod.functions[node.name] = fi
                self._add_function(fi)
            elif isinstance(node, ast.ClassDef):
                self._index_class(mod, node)
            elif isinstance(node, ast.Assign):
                for t in node.targets:
                    if isinstance(t, ast.Name):
                        mod.assigns[t.id] = node.value
            elif isinstance(node, ast.AnnAssign) and node.value is not None:
                if isinstance(node.target, ast.Name):
                    mod.assigns[node.target.id] = node.value
            elif isinstance(node, ast.Try):
                for sub in node.body:
                    if isinstance(sub, ast.ImportFrom) and sub.module:
                        for a in sub.names:
                            mod.imports[a.asname or a.name] = (
                                sub.module, a.name)

    def _index_class(self, mod, node, outer_test=False):
        is_test = outer_test or _is_test_name(node.name)
        ci = ClassInfo(node.name, mod.name, node, mod.file, is_test)
        mod.classes[node.name] = ci
        self.classes.setdefault(node.name, []).append(ci)
        for sub in node.body:
            if isinstance(sub, (ast.FunctionDef, ast.AsyncFunctionDef)):
                key = sub.name
                for d in sub.decorator_list:
                    if isinstance(d, ast.Attribute) and d.attr == 'setter':
                        key = sub.name + '.setter'
                fi = FuncInfo(sub.name, node.name + '.' + key, mod.name,
                              node.name, sub, mod.file,
                              is_test or _is_test_name(sub.name))
                ci.methods[key] = fi
                self._add_function(fi)
            elif isinstance(sub, ast.Assign):
                for t in sub.targets:
                    if isinstance(t, ast.Name):
                        ci.assigns[t.id] = sub.value
            elif isinstance(sub, ast.AnnAssign) and sub.value is not None:
                if isinstance(sub.target, ast.Name):
                    ci.assigns[sub.target.id] = sub.value

    def _add_function(self, fi):
        self.functions.append(fi)
        self._by_qual.setdefault(fi.qual, []).append(fi)
        # nested functions and classes defined in function bodies
        for sub in ast.walk(fi.node):
            if sub is fi.node:
                continue
            if isinstance(sub, (ast.FunctionDef, ast.AsyncFunctionDef)):
                # direct nesting only (deeper handled by recursion)
                if _enclosing_function(sub) is fi.node:
                    nf = FuncInfo(sub.name, fi.qual + '.<locals>.' + sub.name,
                                  fi.module, fi.cls, sub, fi.file,
                                  fi.is_test, nested_in=fi)
                    self._add_function(nf)

    # ---------------------------------------------------------------- lookup
    def fn(self, qual, module=None, required=True):
        """Find a function by 'Class.method' / 'function'.

        Resolution order: exact qualified name (in ``module`` when given),
        then the short name within the module, then repository-wide if
        unique among non-test definitions.
        """
        cands = self._by_qual.get(qual, [])
        if module:
            exact = [f for f in cands if f.module.endswith(module)]
            if exact:
                return exact[0]
        nontest = [f for f in cands if not f.is_test]
        if len(nontest) == 1:
            return nontest[0]
        if len(cands) == 1:
            return cands[0]
        if not cands:
            short = qual.split('.')[-1]
            alt = [f for f in self.functions
                   if f.name == short and not f.is_test and not f.nested_in
                   and (module is None or f.module.endswith(module))]
            # moved between module level and a class of the same module
            if '.' in qual:
                alt = [f for f in alt if f.cls is None] or alt
            if len(alt) == 1:
                return alt[0]
        if len(nontest) > 1 and module is None:
            return nontest[0]
        if required:
            raise AnalysisError('anchor vanished: function %s%s' % (
                qual, ' in ' + module if module else ''))
        return None

    def cls(self, name, required=True):
        cands = [c for c in self.classes.get(name, []) if not c.is_test] \
            or self.classes.get(name, [])
        if cands:
            return cands[0]
        if required:
            raise AnalysisError('anchor vanished: class %s' % name)
        return None

    def module(self, suffix, required=True):
        for name, mod in self.modules.items():
            if name == suffix or name.endswith('.' + suffix):
                return mod
        if required:
            raise AnalysisError('anchor vanished: module %s' % suffix)
        return None

    def mro(self, clsname):
        """Repository-internal linearisation (depth-first, left to right)."""
        out, seen = [], set()

        def walk(n):
            if n in seen:
                return
            seen.add(n)
            ci = self.cls(n, required=False)
            if ci is None:
                return
            out.append(ci)
            for b in ci.bases:
                walk(b)
        walk(clsname)
        return out

    def method(self, clsname, name):
        for ci in self.mro(clsname):
            if name in ci.methods:
                return ci.methods[name]
        return None

    def subclasses(self, clsname, include_tests=False):
        out = []
        for lst in self.classes.values():
            for ci in lst:
                if ci.is_test and not include_tests:
                    continue
                if ci.name == clsname:
                    continue
                if any(c.name == clsname for c in self.mro(ci.name)[1:]):
                    out.append(ci)
        return out

    def stats(self):
        return {
            'files': len(self.modules),
            'functions': len(self.functions),
            'classes': sum(len(v) for v in self.classes.values()),
            'overlay': sorted(self.overlay),
            'inlined_helpers': list(self.inlined),
            'canonical_rewrites': dict(self.canonical),
        }


def _free_names(tree):
    """Names that some function of the module reads but does not bind
    (parameters, assignments, loop/with/except/comprehension targets,
    imports inside the function), as a set over the whole module."""
    out = set()
    for fn in ast.walk(tree):
        if not isinstance(fn, (ast.FunctionDef, ast.AsyncFunctionDef)):
            continue
        bound = set()
        a = fn.args
        for x in a.args + a.kwonlyargs + a.posonlyargs:
            bound.add(x.arg)
        if a.vararg:
            bound.add(a.vararg.arg)
        if a.kwarg:
            bound.add(a.kwarg.arg)
        loads = set()
        for n in ast.walk(fn):
            if isinstance(n, ast.Name):
                if isinstance(n.ctx, ast.Load):
                    loads.add(n.id)
                else:
                    bound.add(n.id)
            elif isinstance(n, ast.arg):
                bound.add(n.arg)
            elif isinstance(n, (ast.FunctionDef, ast.ClassDef,
                                ast.AsyncFunctionDef)):
                bound.add(n.name)
            elif isinstance(n, ast.alias):
                bound.add((n.asname or n.name).split('.')[0])
            elif isinstance(n, ast.ExceptHandler) and n.name:
                bound.add(n.name)
        out |= loads - bound
    return out


def _enclosing_function(node):
    p = getattr(node, '_parent', None)
    while p is not None:
        if isinstance(p, (ast.FunctionDef, ast.AsyncFunctionDef, ast.Lambda)):
            return p
        p = getattr(p, '_parent', None)
    return None


def enclosing_function(node):
    return _enclosing_function(node)


def enclosing_stmt(node):
    """Smallest statement containing ``node``."""
    p = node
    while p is not None and not isinstance(p, ast.stmt):
        p = getattr(p, '_parent', None)
    return p
