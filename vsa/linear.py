"""Linear forms over symbols and a small polyhedral entailment test
(Fourier-Motzkin elimination in exact rationals).  Used as the abstract
domain of the scheduler-loop analysis: no SMT solver, a ~100 line decision
procedure for conjunctions of linear (in)equalities."""

from fractions import Fraction


class Lin:
    __slots__ = ('c', 'k')

    def __init__(self, coeffs=None, const=0):
        self.c = {s: Fraction(v) for s, v in (coeffs or {}).items()
                  if v != 0}
        self.k = Fraction(const)

    @staticmethod
    def sym(name):
        return Lin({name: 1})

    @staticmethod
    def const(v):
        return Lin({}, v)

    def __add__(self, o):
        o = _lin(o)
        c = dict(self.c)
        for s, v in o.c.items():
            c[s] = c.get(s, 0) + v
        return Lin(c, self.k + o.k)

    def __neg__(self):
        return Lin({s: -v for s, v in self.c.items()}, -self.k)

    def __sub__(self, o):
        return self + (-_lin(o))

    def scale(self, f):
        f = Fraction(f)
        return Lin({s: v * f for s, v in self.c.items()}, self.k * f)

    def is_const(self):
        return not self.c

    def is_zero(self):
        return not self.c and self.k == 0

    def symbols(self):
        return set(self.c)

    def __eq__(self, o):
        return isinstance(o, Lin) and self.c == o.c and self.k == o.k

    def __hash__(self):
        return hash((tuple(sorted(self.c.items())), self.k))

    def __repr__(self):
        parts = []
        for s in sorted(self.c):
            v = self.c[s]
            if v == 1:
                parts.append('+' + s)
            elif v == -1:
                parts.append('-' + s)
            else:
                parts.append('%+g*%s' % (float(v), s))
        if self.k != 0 or not parts:
            parts.append('%+g' % float(self.k))
        s = ' '.join(parts)
        return s[1:] if s.startswith('+') else s


def _lin(x):
    if isinstance(x, Lin):
        return x
    return Lin({}, x)


# a constraint is (Lin, op) meaning  Lin op 0  with op in '<=', '<', '=='
def le(a, b):
    return (_lin(a) - _lin(b), '<=')


def lt(a, b):
    return (_lin(a) - _lin(b), '<')


def eq(a, b):
    return (_lin(a) - _lin(b), '==')


def _normalise(constraints):
    out = []
    for l, op in constraints:
        if op == '==':
            out.append((l, '<='))
            out.append((-l, '<='))
        else:
            out.append((l, op))
    return out


def satisfiable(constraints, limit=4000):
    """Is the conjunction satisfiable over the rationals?  (Sound for
    entailment over reals; times are reals/floats here.)"""
    cs = _normalise(constraints)
    syms = set()
    for l, _ in cs:
        syms |= l.symbols()
    for x in sorted(syms):
        pos, neg, rest = [], [], []
        for l, op in cs:
            a = l.c.get(x, 0)
            if a > 0:
                pos.append((l, op, a))
            elif a < 0:
                neg.append((l, op, a))
            else:
                rest.append((l, op))
        for lp, opp, ap in pos:
            for ln, opn, an in neg:
                # lp/ap + ln/(-an) eliminates x
                comb = lp.scale(Fraction(1) / ap) + ln.scale(
                    Fraction(1) / (-an))
                op = '<' if '<' in (opp, opn) else '<='
                rest.append((comb, op))
        # drop duplicates
        seen, cs = set(), []
        for l, op in rest:
            key = (l, op)
            if key not in seen:
                seen.add(key)
                cs.append((l, op))
        if len(cs) > limit:
            return True     # give up: treat as satisfiable (no entailment)
    for l, op in cs:
        if op == '<=' and not l.k <= 0:
            return False
        if op == '<' and not l.k < 0:
            return False
    return True


def entails(facts, goal):
    """facts |= goal ?"""
    l, op = goal
    if op == '==':
        return entails(facts, (l, '<=')) and entails(facts, (-l, '<='))
    if op == '<=':
        neg = (-l, '<')          # l > 0
    else:
        neg = (-l, '<=')         # l >= 0
    return not satisfiable(list(facts) + [neg])
