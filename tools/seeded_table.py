#!/venv/bin/python
"""Re-evaluates every stored seeded change with the current rules (overlay,
never touching /repo), updates meta.json 'checks', writes the markdown table
/verif/seeded/TABLE.md.   usage: tools/seeded_table.py [-j N]"""
import json, os, sys
from multiprocessing import Pool
from pathlib import Path
sys.path.insert(0, str(Path(__file__).resolve().parent.parent))
from vsa.selftest import overlay_from_patch
from vsa.__main__ import run_check, parse_tree, clear_caches
from vsa.rules import RULES

root = Path('/verif/seeded')
BASE = {}


def work(d):
    d = Path(d)
    m = json.loads((d / 'meta.json').read_text())
    ov = overlay_from_patch(d / 'patch.diff')
    clear_caches()
    rp = parse_tree(overlay=ov)
    fired = {}
    for p in sorted(RULES):
        c = run_check(p, 'quick', write=False, quiet=True, repo=rp)
        new = sorted({v.rule for v in c.violations if v.key() not in BASE[p]})
        if new:
            fired[p] = new
        if c.status == 2:
            fired[p] = ['ANALYSIS-ERROR']
    own = m['breaks_property']
    m['checks'] = {'fired': fired, 'own_property_check_fires': own in fired
                   and fired[own] != ['ANALYSIS-ERROR']}
    (d / 'meta.json').write_text(json.dumps(m, indent=1))
    others = ', '.join('%s %s' % (p, '/'.join(r)) for p, r in fired.items() if p != own)
    needs = m['needs_to_manifest']
    if ' NEEDS: ' in needs:
        needs = needs.split(' NEEDS: ', 1)[1]
    return '| %s | %s | %s | %s | %s |' % (
        m['id'], own, needs[:110].replace('|', '/'),
        ('**' + '/'.join(fired[own]) + '**') if m['checks']['own_property_check_fires'] else 'MISSED', others or '-')


def main():
    j = int(sys.argv[sys.argv.index('-j') + 1]) if '-j' in sys.argv else 8
    r0 = parse_tree()
    for p in sorted(RULES):
        BASE[p] = {v.key() for v in run_check(p, 'quick', write=False, quiet=True, repo=r0).violations}
    dirs = [str(d) for d in sorted(root.iterdir()) if (d / 'meta.json').exists()]
    with Pool(j) as pool:
        rows = pool.map(work, dirs, chunksize=2)
    def key(r):
        i = r.split('|')[1].strip()
        p, s = i.split('-s')
        return (p, int(s))
    rows.sort(key=key)
    out = ['| seeded change | property | needs, in order to manifest | caught by its own check (rule) | also caught by |',
           '|---|---|---|---|---|'] + rows
    out.append('\n%d seeded changes, %d caught by the check of the property they break' % (
        len(rows), sum('MISSED' not in r for r in rows)))
    (root / 'TABLE.md').write_text('\n'.join(out) + '\n')
    print(out[-1])


if __name__ == '__main__':
    main()
    sys.stdout.flush(); os._exit(0)
