#!/venv/bin/python
"""Re-evaluates every stored seeded change with the current rules (overlay,
never touching /repo), updates meta.json 'checks', prints a markdown table."""
import json, os, sys
from pathlib import Path
sys.path.insert(0, str(Path(__file__).resolve().parent.parent))
from tools.try_patch import overlay_from_patch
from vsa.__main__ import run_check
from vsa.rules import RULES

root = Path('/verif/seeded')
base = {p: {v.key() for v in run_check(p, 'quick', write=False, quiet=True).violations} for p in sorted(RULES)}
rows = []
for d in sorted(root.iterdir()):
    m = json.loads((d / 'meta.json').read_text())
    ov = overlay_from_patch(d / 'patch.diff')
    fired = {}
    for p in sorted(RULES):
        c = run_check(p, 'quick', overlay=ov, write=False, quiet=True)
        new = sorted({v.rule for v in c.violations if v.key() not in base[p]})
        if new:
            fired[p] = new
        if c.status == 2:
            fired[p] = ['ANALYSIS-ERROR']
    own = m['breaks_property']
    m['checks'] = {'fired': fired, 'own_property_check_fires': own in fired}
    (d / 'meta.json').write_text(json.dumps(m, indent=1))
    others = ', '.join('%s %s' % (p, '/'.join(r)) for p, r in fired.items() if p != own)
    rows.append('| %s | %s | %s | %s | %s |' % (
        m['id'], own, m['needs_to_manifest'][:110],
        ('**' + '/'.join(fired[own]) + '**') if own in fired else 'MISSED', others or '-'))
print('| seeded change | property | needs, in order to manifest | caught by its own check (rule) | also caught by |')
print('|---|---|---|---|---|')
print('\n'.join(rows))
print('\n%d seeded changes, %d caught by the check of the property they break' % (
    len(rows), sum('MISSED' not in r for r in rows)))
sys.stdout.flush(); os._exit(0)
