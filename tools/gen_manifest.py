#!/venv/bin/python
"""Regenerates /verif/MANIFEST.json from the table below and the set of rule
modules that exist.  Run from /verif:  /venv/bin/python tools/gen_manifest.py"""

import json
import sys
from pathlib import Path

sys.path.insert(0, str(Path(__file__).resolve().parent.parent))
from vsa.rules import RULES  # noqa: E402

PY = '/venv/bin/python'

TABLE = {
    'C01': dict(
        text='Decides the linearity clause of "every update applied exactly '
             'once at the end of its interval" on all paths of the scheduler '
             'code: producer confinement (who-may-call), no dropped Defer '
             '(def-use to a sink on every path), take-and-clear under the '
             'due-time guard, consume-once in both apply loops, deleted '
             'processes pruned before polling, due time = value tested '
             'against end_time, no clear without take, update condition '
             'gates the invocation. Static, so it holds for every timestep '
             'mix and call sequence, which tests cannot enumerate.',
        note='Not decided: the arithmetic identity value = initial + '
             'sum(updates) (runtime quantity). Trusted: processes return '
             'updates shaped by their ports; the analyser own CFG/def-use '
             'code.',
        tech='who-may-call + CFG dominance / must-pass-through per loop '
             'iteration + def-use over the front-entry slot family',
        ref='3 C01'),
    'C02': dict(
        text='Abstract interpretation of the polling body of run_for over '
             'linear forms proves, on every abstract path that starts an '
             'update, stored_due_time - previous_entry_time == interval '
             'argument (min split, round transparent): the property itself '
             'up to float rounding, for all timesteps and end times. Plus '
             'update() forces and checks completion; default timestep.',
        note='Assumes the time grid (round is the identity on it) and that '
             'calculate_timestep is opaque. Float rounding not modelled.',
        tech='abstract interpretation over linear forms with '
             'Fourier-Motzkin entailment; CFG post-dominance',
        ref='3 C02'),
    'C03': dict(
        text='Progress obligations of the scheduler loop decided in a '
             'linear-facts domain: exhaustive accounting of polling paths, '
             'positivity of every term of full_step, monotone/bounded/'
             'progressing clock assignments, quiet entries advanced with '
             'every advance, exit implies global_time == end_time, rounding '
             'of manufactured times. One known finding (ran-branch step not '
             'provably positive) is listed in known_findings.json.',
        note='Termination follows only under TS_POSITIVE (timesteps bounded '
             'below by a positive constant) and INTERVAL_NONNEG. The '
             'floating-point grid clause is a runtime quantity and is not '
             'decided.',
        tech='abstract interpretation over linear forms with '
             'Fourier-Motzkin entailment; CFG must-pass-through',
        ref='3 C03'),
}


GATE_NOTE = (' A violation located in a function that was rewritten '
             'wholesale (>= 11 distinct canonical statements and >= 35 % of '
             'them differ from the pinned form, or newly written with '
             'match / itertools / functools idioms or a new generator '
             'helper) is not believed: the run answers ANALYSIS-ERROR '
             '"undecided" (exit 2), never VIOLATION (DESIGN.md 10.9).')


def main():
    root = Path(__file__).resolve().parent.parent
    extra = json.loads((root / 'tools' / 'manifest_table.json').read_text()) \
        if (root / 'tools' / 'manifest_table.json').exists() else {}
    table = dict(TABLE)
    table.update(extra)
    props = [json.loads(l)['id'] for l in
             (root / 'properties.jsonl').read_text().splitlines() if l.strip()]
    checks = []
    na = []
    for pid in props:
        if pid in RULES and pid in table:
            t = table[pid]
            checks.append({
                'property_id': pid,
                'quick_cmd': '%s -m vsa check %s --tier quick' % (PY, pid),
                'thorough_cmd': '%s -m vsa check %s --tier thorough '
                                '--jobs 16' % (PY, pid),
                'evidence_file': '/verif/evidence/%s.json' % pid,
                'replay_cmd_template': '%s -m vsa replay {path}' % PY,
                'engine': 'vsa',
                'level_claimed': {
                    'category': 'other',
                    'text': t['text'],
                    'design_ref': 'DESIGN.md section ' + t['ref'],
                },
                'level_note': t['note'] + GATE_NOTE,
                'technique': 'static analysis: ' + t['tech'],
            })
        else:
            reason = table.get(pid, {}).get('na') or (
                'no sound static rule implemented yet in this round; not '
                'claimed')
            na.append({'property_id': pid, 'reason': reason})
    man = {
        'version': 1,
        'setup_cmd': '%s -m vsa --self-check' % PY,
        'hooks': {
            'guard': 'VIVARIUM_CORE_VERIF',
            'enable': 'none needed: the checks only parse /repo, nothing is '
                      'instrumented or executed',
            'baseline_off_cmd': 'cd /repo && /venv/bin/python -m pytest -ra '
                                '-q -p no:cacheprovider --timeout=900 '
                                '--continue-on-collection-errors',
            'source_commits': [],
            'add_only': True,
        },
        'engines': [{
            'name': 'vsa',
            'path': '/verif/vsa',
            'serves_properties': [c['property_id'] for c in checks],
            'kind_free_text': 'repository-specific static analyser (ast + '
                              'own statement CFG on networkx + reaching '
                              'definitions + call graph with receiver '
                              'typing + linear-form abstract interpreter); '
                              'parses /repo on every run, never imports or '
                              'executes it',
        }],
        'checks': checks,
        'not_applicable': na,
        'notes': 'Exit protocol: 0 = all obligations discharged or only '
                 'listed known findings (KNOWN-FINDING lines); 1 + VIOLATION '
                 'line = an obligation failed that known_findings.json does '
                 'not list; 2 + ANALYSIS-ERROR = anchors vanished / instance '
                 'floors not met / code rewritten beyond what the rules '
                 'recognise ("undecided") / checker crashed (never a '
                 'verdict). '
                 'fix: commits in /repo are recorded as fixed entries in '
                 'known_findings.json / known_findings.txt.',
    }
    (root / 'MANIFEST.json').write_text(json.dumps(man, indent=1) + '\n')
    print('MANIFEST.json: %d checks, %d not_applicable' % (
        len(checks), len(na)))


if __name__ == '__main__':
    main()
