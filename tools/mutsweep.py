#!/venv/bin/python
"""Mechanical mutation sweep: a blind-spot map of the rules.

Stage 1 (this tool, static): for every non-test function of the library
modules the properties live in, generate classical one-edit mutants
(statement deletion, forced conditions, relational / logical / arithmetic
operator replacement, negation removal, argument swaps, constant and slice
changes, dropped copies) and run ALL checks on each mutant through an
in-memory overlay.  /repo is never touched and nothing is executed.  The
result says, per mutant, which checks fire - and lists the mutants on which
every check stays silent: those are either behaviour-preserving, or loud
(the unedited suite catches them), or blind spots of the rules.  Stage 2
(tools/mutsweep_suite.py) runs the unedited suite on the silent ones to
separate loud from quiet.

usage: tools/mutsweep.py [-j N] [--files f1,f2] [--ops SDL,COND,...]
                         [--limit N] [--out FILE] [--resume]
"""
import argparse
import ast
import json
import os
import sys
import time
from multiprocessing import Pool
from pathlib import Path

sys.path.insert(0, str(Path(__file__).resolve().parent.parent))

FILES = [
    'vivarium/core/engine.py', 'vivarium/core/store.py',
    'vivarium/core/process.py', 'vivarium/core/composer.py',
    'vivarium/core/registry.py', 'vivarium/core/serialize.py',
    'vivarium/core/emitter.py', 'vivarium/library/topology.py',
    'vivarium/library/dict_utils.py', 'vivarium/processes/timeline.py',
]
ROOT = Path(os.environ.get('VSA_REPO', '/repo'))


def _is_test_name(name):
    return (name.startswith('test_') or name.startswith('Test')
            or name.startswith('Toy') or name.startswith('_test'))


def functions_of(tree):
    """(qual, node) of non-test functions and methods (nested functions
    belong to their outermost function)."""
    out = []
    for node in tree.body:
        if isinstance(node, ast.FunctionDef) and not _is_test_name(node.name):
            out.append((node.name, node))
        elif isinstance(node, ast.ClassDef) and not _is_test_name(node.name):
            for sub in node.body:
                if isinstance(sub, ast.FunctionDef) and not _is_test_name(
                        sub.name):
                    out.append((node.name + '.' + sub.name, sub))
    return out


class Offsets:
    def __init__(self, src):
        self.src = src
        self.b = src.encode()
        self.starts = [0]
        for line in self.b.split(b'\n'):
            self.starts.append(self.starts[-1] + len(line) + 1)

    def span(self, node):
        s = self.starts[node.lineno - 1] + node.col_offset
        e = self.starts[node.end_lineno - 1] + node.end_col_offset
        return s, e

    def text(self, node):
        s, e = self.span(node)
        return self.b[s:e].decode()


ROR = {ast.Lt: ast.LtE, ast.LtE: ast.Lt, ast.Gt: ast.GtE, ast.GtE: ast.Gt,
       ast.Eq: ast.NotEq, ast.NotEq: ast.Eq, ast.In: ast.NotIn,
       ast.NotIn: ast.In, ast.Is: ast.IsNot, ast.IsNot: ast.Is}
COPIERS = {'deepcopy', 'deep_copy_internal', 'dict', 'list', 'copy',
           'tuple'}


def mutants_of_function(qual, fn, off):
    """Yield (op, node-for-position, start, end, replacement text)."""
    import copy as _c

    def expr(node, new_ast):
        s, e = off.span(node)
        return s, e, '(' + ast.unparse(new_ast) + ')'

    doc = None
    if fn.body and isinstance(fn.body[0], ast.Expr) and isinstance(
            fn.body[0].value, ast.Constant) and isinstance(
            fn.body[0].value.value, str):
        doc = fn.body[0]
    for node in ast.walk(fn):
        if node is doc:
            continue
        # ---- statements
        if isinstance(node, (ast.Expr, ast.Assign, ast.AugAssign,
                             ast.Delete, ast.Raise, ast.Continue,
                             ast.Break)) or (
                isinstance(node, ast.AnnAssign) and node.value is not None):
            if isinstance(node, ast.Expr) and isinstance(
                    node.value, ast.Constant):
                continue
            s, e = off.span(node)
            yield 'SDL', node, s, e, 'pass'
        if isinstance(node, (ast.If, ast.While, ast.IfExp)):
            s, e = off.span(node.test)
            if not isinstance(node, ast.While):
                yield 'COND', node.test, s, e, 'True'
            yield 'COND', node.test, s, e, 'False'
        # ---- expressions
        if isinstance(node, ast.Compare) and len(node.ops) == 1 and \
                type(node.ops[0]) in ROR:
            n2 = _c.deepcopy(node)
            n2.ops = [ROR[type(node.ops[0])]()]
            yield ('ROR', node) + expr(node, n2)
        if isinstance(node, ast.BoolOp):
            n2 = _c.deepcopy(node)
            n2.op = ast.Or() if isinstance(node.op, ast.And) else ast.And()
            yield ('LOR', node) + expr(node, n2)
            if len(node.values) >= 2:
                for i in range(len(node.values)):
                    n3 = _c.deepcopy(node)
                    del n3.values[i]
                    new = n3.values[0] if len(n3.values) == 1 else n3
                    yield ('LOD', node) + expr(node, new)
        if isinstance(node, ast.UnaryOp) and isinstance(node.op, ast.Not):
            yield ('NOT', node) + expr(node, node.operand)
        if isinstance(node, ast.BinOp) and isinstance(
                node.op, (ast.Add, ast.Sub, ast.FloorDiv)):
            n2 = _c.deepcopy(node)
            n2.op = {ast.Add: ast.Sub, ast.Sub: ast.Add,
                     ast.FloorDiv: ast.Div}[type(node.op)]()
            yield ('AOR', node) + expr(node, n2)
        if isinstance(node, ast.Call):
            simple = [a for a in node.args if isinstance(
                a, (ast.Name, ast.Attribute, ast.Constant, ast.Subscript))]
            if len(node.args) >= 2 and len(simple) == len(node.args) and \
                    not node.keywords and ast.dump(node.args[0]) != ast.dump(
                        node.args[1]):
                n2 = _c.deepcopy(node)
                n2.args[0], n2.args[1] = n2.args[1], n2.args[0]
                yield ('ARGSWAP', node) + expr(node, n2)
            nm = node.func.attr if isinstance(
                node.func, ast.Attribute) else getattr(node.func, 'id', None)
            if nm in COPIERS and not node.keywords:
                src = None
                if len(node.args) == 1:
                    src = node.args[0]
                elif nm == 'copy' and not node.args and isinstance(
                        node.func, ast.Attribute):
                    src = node.func.value
                if src is not None and not isinstance(
                        src, (ast.GeneratorExp, ast.ListComp)):
                    yield ('COPY', node) + expr(node, src)
        if isinstance(node, ast.Constant) and not isinstance(
                node.value, (str, bytes)) and node.value is not None and \
                node.value is not Ellipsis:
            v = node.value
            if v is True or v is False:
                new = ast.Constant(value=not v)
            elif isinstance(v, (int, float)) and v in (0, 1):
                new = ast.Constant(value=1 - v)
            else:
                new = None
            if new is not None:
                s, e = off.span(node)
                yield 'CONST', node, s, e, ast.unparse(new)
        if isinstance(node, ast.Subscript) and isinstance(
                node.slice, ast.Slice) and (
                node.slice.lower is not None or
                node.slice.upper is not None):
            n2 = _c.deepcopy(node)
            n2.slice = ast.Slice(lower=None, upper=None, step=None)
            yield ('SLICE', node) + expr(node, n2)


def generate(files, ops=None):
    out = []
    for rel in files:
        src = (ROOT / rel).read_text()
        tree = ast.parse(src)
        off = Offsets(src)
        for qual, fn in functions_of(tree):
            seen = set()
            for op, node, s, e, text in mutants_of_function(qual, fn, off):
                if ops and op not in ops:
                    continue
                key = (s, e, text)
                if key in seen:
                    continue
                seen.add(key)
                new = off.b[:s] + text.encode() + off.b[e:]
                try:
                    ast.parse(new.decode())
                except SyntaxError:
                    continue
                out.append({
                    'id': '%s:%s:%d:%d:%s:%d' % (
                        rel.split('/')[-1][:-3], qual, node.lineno,
                        node.col_offset, op, len(out)),
                    'file': rel, 'function': qual, 'op': op,
                    'line': node.lineno, 'start': s, 'end': e,
                    'old': off.b[s:e].decode()[:160], 'new': text})
    return out


def materialise(m):
    b = (ROOT / m['file']).read_text().encode()
    return (b[:m['start']] + m['new'].encode() + b[m['end']:]).decode()


BASE = {}


def work(m):
    from vsa.__main__ import run_check, parse_tree, clear_caches
    from vsa.rules import RULES
    t0 = time.time()
    clear_caches()
    rp = parse_tree(overlay={m['file']: materialise(m)})
    fired, errors = {}, {}
    for p in sorted(RULES):
        ck = run_check(p, 'quick', write=False, quiet=True, repo=rp)
        if ck.status == 2:
            errors[p] = (ck.error or '')[:160]
            continue
        new = sorted({v.rule for v in ck.violations
                      if v.key() not in BASE.get(p, set())})
        if new:
            fired[p] = new
    return {'id': m['id'], 'fired': fired, 'errors': errors,
            's': round(time.time() - t0, 2)}


def main():
    ap = argparse.ArgumentParser()
    ap.add_argument('-j', type=int, default=8)
    ap.add_argument('--files')
    ap.add_argument('--ops')
    ap.add_argument('--limit', type=int)
    ap.add_argument('--out', default='/verif/out/mutsweep/stage1.jsonl')
    ap.add_argument('--resume', action='store_true')
    ap.add_argument('--list', action='store_true')
    a = ap.parse_args()
    files = a.files.split(',') if a.files else FILES
    ops = set(a.ops.split(',')) if a.ops else None
    muts = generate(files, ops)
    if a.limit:
        import random
        random.Random(1).shuffle(muts)
        muts = muts[:a.limit]
    by = {}
    for m in muts:
        by[m['op']] = by.get(m['op'], 0) + 1
    print('mutants: %d  %s' % (len(muts), by), flush=True)
    if a.list:
        for m in muts:
            print(json.dumps(m))
        return 0
    out = Path(a.out)
    out.parent.mkdir(parents=True, exist_ok=True)
    done = set()
    if a.resume and out.exists():
        for line in out.read_text().splitlines():
            try:
                done.add(json.loads(line)['id'])
            except Exception:
                pass
    from vsa.__main__ import run_check, parse_tree
    from vsa.rules import RULES
    r0 = parse_tree()
    for p in sorted(RULES):
        ck = run_check(p, 'quick', write=False, quiet=True, repo=r0)
        BASE[p] = {v.key() for v in ck.violations}
    todo = [m for m in muts if m['id'] not in done]
    byid = {m['id']: m for m in muts}
    t0 = time.time()
    n = 0
    with open(out, 'a' if a.resume else 'w') as fh, Pool(a.j) as pool:
        for r in pool.imap_unordered(work, todo, chunksize=2):
            m = dict(byid[r['id']])
            m.update(r)
            fh.write(json.dumps(m) + '\n')
            fh.flush()
            n += 1
            if n % 100 == 0:
                print('%d/%d  %.0fs' % (n, len(todo), time.time() - t0),
                      flush=True)
    print('done %d in %.0fs' % (n, time.time() - t0))
    return 0


if __name__ == '__main__':
    code = main()
    sys.stdout.flush()
    os._exit(code or 0)
