#!/venv/bin/python
"""For each property: functions of its behaviour slice (may-reachable from
its anchor functions, non-test) that carry no obligation of that check."""
import json, os, sys
from pathlib import Path
sys.path.insert(0, str(Path(__file__).resolve().parent.parent))
from vsa.__main__ import run_check
from vsa.rules import RULES
from vsa.callgraph import callgraph

ANCHORS = {
 'C01': ['Engine.run_for', 'Engine._send_updates', 'invert_topology'],
 'C02': ['Engine.run_for', 'Engine.update'],
 'C03': ['Engine.run_for'],
 'C04': ['Engine.run_for', 'Engine.run_steps'],
 'C05': ['Engine.run_steps', 'Engine.__init__', 'Engine._send_updates'],
 'C06': ['Store._topology_ports', 'Store.schema_topology', 'inverse_topology', 'Store.build_topology_views'],
 'C07': ['Store.schema_topology', 'Store.build_topology_views', 'Store.apply_update'],
 'C08': ['Store.apply_update', 'Store._get_updater'],
 'C09': ['Store.apply_update'],
 'C10': ['Engine.apply_update', 'Engine._delete_path'],
 'C11': ['Store.divide', 'Store.divide_value'],
 'C12': ['Engine._emit_store_data', 'Engine._emit_configuration', 'RAMEmitter.emit', 'Store.emit_data'],
 'C13': ['ParallelProcess.end', 'Engine.end', 'Engine._parallelize_processes', '_handle_parallel_process'],
 'C14': ['serialize_value', 'deserialize_value', 'make_fallback_serializer_function'],
 'C15': ['generate_state', 'Store.generate', 'Composite.initial_state', 'Composite.default_state'],
 'C16': ['Composer.generate', 'Process.generate', 'Composite.merge', 'Composite.__init__', 'Engine._make_store', 'get_composite_from_store'],
 'C18': ['Emitter.get_timeseries', 'Emitter.get_path_timeseries', 'RAMEmitter.get_data', 'Emitter.get_data_unitless'],
 'C19': ['TimelineProcess.next_update', 'TimelineProcess.__init__', 'TimelineProcess.ports_schema', 'add_timeline'],
}
for p in sorted(RULES):
    ck = run_check(p, 'quick', write=False, quiet=True)
    covered = {o['function'] for o in ck.obligations if o['function']}
    cg = callgraph(ck.repo)
    roots = [ck.repo.fn(a) for a in ANCHORS[p]]
    fam = {'Process'} | {c.name for c in ck.repo.subclasses('Process', include_tests=True)}
    seen = cg.reachable(roots, stop=lambda f: f.cls in fam and f.cls not in ('Process', 'ParallelProcess', 'TimelineProcess'))
    slice_ = sorted({f.qual for f, _, _ in seen.values() if not f.is_test and not f.nested_in})
    unc = [q for q in slice_ if q not in covered and not q.endswith('__repr__')]
    print('%s: slice %d functions, %d without an obligation:' % (p, len(slice_), len(unc)))
    print('     ' + ', '.join(unc))
sys.stdout.flush(); os._exit(0)
