#!/venv/bin/python
"""Every catalogue variant against EVERY property: looks for checker crashes
(analysis errors) and for benign twins that raise an alarm anywhere."""
import json, os, sys
from multiprocessing import Pool
from pathlib import Path
sys.path.insert(0, str(Path(__file__).resolve().parent.parent))
from vsa.selftest import load_catalogue, make_overlay
from vsa.__main__ import run_check
from vsa.rules import RULES

BASE = {}

def work(v):
    ov = make_overlay(v)
    if ov is None:
        return v['id'], 'stale', []
    out = []
    for p in sorted(RULES):
        c = run_check(p, 'quick', overlay=ov, write=False, quiet=True)
        if c.status == 2:
            out.append((p, 'ERR', c.error[:160]))
        else:
            new = sorted({v2.rule for v2 in c.violations if v2.key() not in BASE[p]})
            if new:
                out.append((p, 'FIRE', new))
    return v['id'], v['expect'], out

if __name__ == '__main__':
    for p in sorted(RULES):
        BASE[p] = {v.key() for v in run_check(p, 'quick', write=False, quiet=True).violations}
    cat = load_catalogue()
    with Pool(16) as pool:
        res = pool.map(work, cat, chunksize=2)
    nerr = 0
    for vid, exp, out in res:
        errs = [o for o in out if o[1] == 'ERR']
        fires = [o for o in out if o[1] == 'FIRE']
        if errs:
            nerr += 1
            print(vid, exp, 'ERRORS', errs)
        if exp == 'silent' and fires:
            print(vid, 'BENIGN FIRES', fires)
        if exp == 'fire':
            print(vid, 'fires in', [(o[0], o[2]) for o in fires]) if '-v' in sys.argv else None
    print('variants with analysis errors:', nerr)
    sys.stdout.flush(); os._exit(0)
