#!/venv/bin/python
"""Writes vsa/pinned_skeletons.json from the CURRENT tree of /repo (run once
on the pinned tree, after the fix: commits; see vsa/restructure.py)."""
import json, sys
from pathlib import Path
sys.path.insert(0, str(Path(__file__).resolve().parent.parent))
from vsa.loader import Repo
from vsa.restructure import skeletons
r = Repo()
out = {}
for fi in r.functions:
    if fi.is_test:
        continue
    out[fi.module + ':' + fi.qual] = sorted(skeletons(fi.node).elements())
Path('/verif/vsa/pinned_skeletons.json').write_text(json.dumps(out, indent=0))
print(len(out), 'functions')
