#!/venv/bin/python
"""Stage 2 of the mutation sweep: run the UNEDITED suite on the mutants on
which every check stayed silent (scratch copies under /dev/shm, removed at
the end; /repo is never touched).  A mutant that survives the suite and that
no check reports is a candidate blind spot to be triaged by hand (it may be
behaviour-preserving).

usage: tools/mutsweep_suite.py [--in stage1.jsonl] [--out stage2.jsonl]
                               [-w WORKERS] [-n XDIST] [--limit N] [--resume]
"""
import argparse
import json
import os
import re
import shutil
import subprocess
import sys
import time
from multiprocessing import Pool, current_process
from pathlib import Path

sys.path.insert(0, str(Path(__file__).resolve().parent))
from mutsweep import materialise  # noqa: E402

SCRATCH = Path('/dev/shm/mutsweep')
XDIST = 3


def _tree():
    wid = current_process()._identity[0] if current_process()._identity \
        else 0
    d = SCRATCH / ('w%d' % wid)
    if not d.exists():
        d.mkdir(parents=True)
        subprocess.run(['rsync', '-a', '--exclude', '__pycache__',
                        '--exclude', '.git', '--exclude', 'out',
                        '/repo/', str(d) + '/'], check=True)
    return d


def work(m):
    d = _tree()
    target = d / m['file']
    orig = (Path('/repo') / m['file']).read_text()
    t0 = time.time()
    try:
        target.write_text(materialise(m))
        env = dict(os.environ, PYTHONPATH=str(d), PYTHONDONTWRITEBYTECODE='1')
        try:
            r = subprocess.run(
                ['/venv/bin/python', '-m', 'pytest', '-x', '-q', '-p',
                 'no:cacheprovider', '-n', str(XDIST), '--timeout', '120',
                 '--deselect', 'vivarium/experiments/large_experiment.py'],
                cwd=d, env=env, capture_output=True, text=True, timeout=400)
            tail = (r.stdout.strip().splitlines() or [''])[-1]
        except subprocess.TimeoutExpired:
            tail = 'TIMEOUT'
    finally:
        target.write_text(orig)
    survived = bool(re.search(r'\b123 passed', tail)) and 'failed' not in \
        tail and 'error' not in tail
    return {'id': m['id'], 'suite': 'SURVIVES' if survived else 'KILLED',
            'tail': tail[-120:], 's': round(time.time() - t0, 1)}


def main():
    global XDIST
    ap = argparse.ArgumentParser()
    ap.add_argument('--in', dest='inp',
                    default='/verif/out/mutsweep/stage1.jsonl')
    ap.add_argument('--out', default='/verif/out/mutsweep/stage2.jsonl')
    ap.add_argument('-w', type=int, default=4)
    ap.add_argument('-n', type=int, default=3)
    ap.add_argument('--limit', type=int)
    ap.add_argument('--resume', action='store_true')
    ap.add_argument('--ops')
    a = ap.parse_args()
    XDIST = a.n
    muts = [json.loads(l) for l in Path(a.inp).read_text().splitlines()]
    silent = [m for m in muts if not m['fired'] and not m['errors']]
    if a.ops:
        silent = [m for m in silent if m['op'] in a.ops.split(',')]
    print('stage 1: %d mutants, %d silent' % (len(muts), len(silent)),
          flush=True)
    out = Path(a.out)
    done = set()
    if a.resume and out.exists():
        for line in out.read_text().splitlines():
            done.add(json.loads(line)['id'])
    todo = [m for m in silent if m['id'] not in done]
    if a.limit:
        todo = todo[:a.limit]
    byid = {m['id']: m for m in todo}
    t0 = time.time()
    n = surv = 0
    try:
        with open(out, 'a' if a.resume else 'w') as fh, Pool(a.w) as pool:
            for r in pool.imap_unordered(work, todo):
                m = dict(byid[r['id']])
                m.update(r)
                fh.write(json.dumps(m) + '\n')
                fh.flush()
                n += 1
                surv += r['suite'] == 'SURVIVES'
                if n % 20 == 0:
                    print('%d/%d  survivors %d  %.0fs' % (
                        n, len(todo), surv, time.time() - t0), flush=True)
    finally:
        shutil.rmtree(SCRATCH, ignore_errors=True)
    print('done: %d run, %d survive' % (n, surv))
    return 0


if __name__ == '__main__':
    code = main()
    sys.stdout.flush()
    os._exit(code or 0)
