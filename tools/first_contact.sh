#!/bin/sh
# usage: tools/first_contact.sh <PROP> [round-tag]
# Runs every check (as it stands now) against each change<k>.diff of the agent
# worktree /tmp/agents/<PROP> through an in-memory overlay and appends one
# line per change to /verif/seeded/first_contact.tsv:
#   tag  prop  k  own-check-fired(yes/no)  checks-that-fired
P=$1; TAG=${2:-round4}
for f in /tmp/agents/$P/_out/change*.diff; do
  k=$(basename $f .diff | sed 's/change//')
  OUT=$(/venv/bin/python /verif/tools/try_patch.py $f 2>&1)
  FIRED=$(echo "$OUT" | grep '^FIRED' | tail -1)
  case "$FIRED" in *"'$P'"*) OWN=yes;; *) OWN=no;; esac
  printf '%s\t%s\t%s\t%s\t%s\n' "$TAG" "$P" "$k" "$OWN" "$FIRED" >> /verif/seeded/first_contact.tsv
  echo "== $P change$k own=$OWN $FIRED"
  echo "$OUT" | grep -v '^FIRED' | cut -c1-220
done
