#!/venv/bin/python
"""Hand-written seeded variants for the helper shape rules (never run)."""
import json
from pathlib import Path
root = Path(__file__).resolve().parent.parent
cat = json.loads((root / 'vsa/catalogue.json').read_text())
cat['variants'] = [v for v in cat['variants'] if not v['id'].startswith('HV')]
T='vivarium/library/topology.py'; D='vivarium/library/dict_utils.py'
def hv(id, prop, rule, file, old, new, what):
    src=(Path('/repo')/file).read_text(); assert src.count(old)==1,(id,src.count(old))
    cat['variants'].append({'id':id,'property':prop,'rule':rule,'file':file,'old':old,'new':new,'suite':'UNKNOWN','expect':'fire','source':'hand-written (helper shape rules)','what':what})
hv('HV01','C10','R10.13',T,"            if head in d:\n                del d[head]\n        elif head in d:","            if head in d:\n                d[head] = {}\n        elif head in d:",'delete_in empties instead of deleting')
hv('HV02','C10','R10.13',T,"            if head not in d:\n                d[head] = {}\n            assoc_path(d[head], path[1:], value)","            d[head] = {}\n            assoc_path(d[head], path[1:], value)",'assoc_path wipes existing intermediate dictionaries')
hv('HV03','C18','R18.4',T,"        if head in d:\n            return get_in(d[head], path[1:], default)\n        return default","        if head in d and d[head]:\n            return get_in(d[head], path[1:], default)\n        return default",'get_in treats falsy nodes as missing')
hv('HV04','C09','R09.13',T,"            paths = dict_to_paths(root + (key,), down)","            paths = dict_to_paths(root, down)",'dict_to_paths loses the key')
hv('HV05','C08','R08.12',D,"""        if (k in dct and isinstance(dct[k], dict)
                and isinstance(merge_dct[k], collections.abc.Mapping)):
            deep_merge(dct[k], merge_dct[k])
        else:
            dct[k] = merge_dct[k]
    return dct


def deep_copy_internal""","""        dct[k] = merge_dct[k]
    return dct


def deep_copy_internal""",'deep_merge is shallow')
hv('HV06','C19','R19.7','vivarium/processes/timeline.py',"    for key in keys[:-1]:\n        dic = dic.setdefault(key, {})","    for key in keys[:-1]:\n        dic = dic.get(key, {})",'nested_set does not attach the sub-dictionaries it creates')
hv('HV07','C05','R05.8','vivarium/core/store.py',"        if isinstance(inner, dict):\n            base.update(hierarchy_depth(inner, down))","        if isinstance(inner, dict):\n            base.update(hierarchy_depth(inner, path))",'hierarchy_depth loses the compartment key')
hv('HV08','C06','R06.8',T,"        updated[head] = update_in(d[head], path[1:], f)","        updated[head] = update_in(d[head], path, f)",'update_in does not consume the path')
S='vivarium/core/store.py'
hv('HV20','C17','R17.4',S,"            if step == '..':\n                child = self.outer\n            else:\n                child = self.inner.get(step)","            if step == '..':\n                child = self.outer.outer if self.outer else None\n            else:\n                child = self.inner.get(step)","get_path: '..' skips a level")
hv('HV21','C17','R17.4',S,"                return child.get_path(path[1:])","                return child.get_path(path[2:])",'get_path skips a step')
hv('HV22','C17','R17.5',S,"            return above + (key,)\n        return tuple()","            return (key,) + above\n        return tuple()",'path_for builds the path in reverse')
hv('HV23','C17','R17.6',S,"            self_path = self_path[1:]\n            to_path = to_path[1:]","            self_path = self_path[1:]",'path_to strips the prefix of one path only')
hv('HV24','C17','R17.6',S,"            for _ in self_path]\n        path.extend(to_path)","            for _ in to_path]\n        path.extend(to_path)","path_to goes up once per element of the wrong path")
hv('HV25','C17','R17.5',S,"        if self.outer:\n            return self.outer.top()\n        return self","        if self.outer:\n            return self.outer\n        return self",'top() stops at the parent')
hv('HV26','C17','R17.3',T,"        if step == '..' and len(progress) > 0:\n            progress = progress[:-1]","        if step == '..' and len(progress) > 1:\n            progress = progress[:-1]","normalize_path keeps '..' after one element")
hv('HV27','C17','R17.1',T,"        updated[head] = update_in(d[head], path[1:], f)","        updated[head] = update_in(d, path[1:], f)",'update_in descends into the wrong dictionary')
hv('HV28','C17','R17.2',T,"        assoc_path(d, path, f(node))","        assoc_path(d, path[1:], f(node))",'paths_to_dict drops the first key')
hv('HV29','C17','R17.4',S,"                return self.outer._establish_path(\n                    remaining,","                return self.outer._establish_path(\n                    path,",'_establish_path does not consume the .. step')
hv('HV30','C17','R17.5',S,"        if looking == value:\n            found = key\n            break","        if looking == value:\n            found = value\n            break",'key_for_value returns the value')
(root/'vsa/catalogue.json').write_text(json.dumps(cat,indent=1))
print('ok')
