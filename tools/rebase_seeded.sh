#!/bin/sh
# Re-bases every stored seeded change onto the current head of /repo, when
# its patch.diff no longer applies with `git apply`: applies it with
# patch(1) (fuzz) on the scratch worktree /tmp/agents/PORT, regenerates the
# diff, re-runs the demonstration (clean: exit 0, changed: exit !=0) and
# stores the new diff (the previous one is kept as patch.<short-hash>.diff).
PORT=/tmp/agents/PORT
[ -d $PORT ] || git -C /repo worktree add -q --detach $PORT HEAD
cd $PORT && git checkout -q -- . && git checkout -q --detach $(git -C /repo rev-parse HEAD) || exit 2
H=$(git -C /repo rev-parse --short HEAD)
for d in /verif/seeded/*/; do
  id=$(basename $d)
  if git -C /repo apply --check $d/patch.diff 2>/dev/null; then continue; fi
  cd $PORT && git checkout -q -- vivarium
  if ! patch -p1 -s --no-backup-if-mismatch < $d/patch.diff > /tmp/rebase.log 2>&1; then
     echo "$id: DOES NOT APPLY even with fuzz - port by hand"; git checkout -q -- vivarium; find . -name '*.rej' -delete; continue
  fi
  find . -name '*.orig' -delete
  git diff -- vivarium > /tmp/rebased_$id.diff
  mkdir -p _out; cp $d/demo.py _out/demo.py
  (cd _out && PYTHONPATH=$PORT timeout 300 /venv/bin/python demo.py >/dev/null 2>&1); D=$?
  git checkout -q -- vivarium
  (cd _out && PYTHONPATH=$PORT timeout 300 /venv/bin/python demo.py >/dev/null 2>&1); C=$?
  if [ $C = 0 ] && [ $D != 0 ]; then
     cp $d/patch.diff $d/patch.before-$H.diff; cp /tmp/rebased_$id.diff $d/patch.diff
     echo "$id: rebased onto $H (demo clean exit=$C, changed exit=$D)"
  else
     echo "$id: rebased patch NOT confirmed (clean=$C changed=$D)"
  fi
done
