#!/venv/bin/python
"""Run all checks against many patches in parallel (overlays; /repo is never
touched).  usage: tools/try_many.py <patch> [<patch> ...]   prints one line
per patch that makes some check fire or fail."""
import os, sys
from multiprocessing import Pool
from pathlib import Path
sys.path.insert(0, str(Path(__file__).resolve().parent.parent))
from vsa.selftest import overlay_from_patch
from vsa.__main__ import run_check
from vsa.rules import RULES

BASE = {}


def work(patch):
    ov = overlay_from_patch(patch)
    if ov is None:
        return patch, None
    out = []
    from vsa.__main__ import parse_tree, clear_caches
    clear_caches()
    rp = parse_tree(overlay=ov)
    for p in sorted(RULES):
        c = run_check(p, 'quick', write=False, quiet=True, repo=rp)
        if c.status == 2:
            out.append('%s ANALYSIS-ERROR %s' % (p, (c.error or '')[:140]))
        for v in c.violations:
            if v.key() not in BASE[p]:
                out.append('%s %s %s | %s' % (p, v.rule, v.function, v.message[:110]))
    return patch, out


if __name__ == '__main__':
    from vsa.__main__ import parse_tree
    r0 = parse_tree()
    for p in sorted(RULES):
        BASE[p] = {v.key() for v in run_check(p, 'quick', write=False, quiet=True, repo=r0).violations}
    patches = sys.argv[1:]
    with Pool(16) as pool:
        res = pool.map(work, patches, chunksize=1)
    nfire = 0
    for patch, out in res:
        short = '/'.join(Path(patch).parts[-3:])
        if out is None:
            print('== %s: PATCH DOES NOT APPLY' % short)
        elif out:
            nfire += 1
            print('== %s:' % short)
            for l in out:
                print('     ' + l)
    print('%d of %d patches raise something' % (nfire, len(res)))
    sys.stdout.flush(); os._exit(0)
