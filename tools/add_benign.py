#!/venv/bin/python
"""Benign twins (behaviour-preserving edits) added to the catalogue.
Each must leave every rule silent."""
import json
from pathlib import Path
root = Path(__file__).resolve().parent.parent
cat = json.loads((root / 'vsa/catalogue.json').read_text())
cat['variants'] = [v for v in cat['variants'] if not v['id'].startswith('BT')]
E = 'vivarium/core/engine.py'
S = 'vivarium/core/store.py'
R = 'vivarium/core/registry.py'
T = 'vivarium/library/topology.py'
P = 'vivarium/core/process.py'
twins = []
def bt(id, props, what, edits):
    if isinstance(edits, tuple):
        edits = [edits]
    es = [{'file': f, 'old': o, 'new': n} for f, o, n in edits]
    for e in es:
        src = (Path('/repo') / e['file']).read_text()
        assert src.count(e['old']) == 1, (id, e['old'][:60], src.count(e['old']))
    twins.append({'id': id, 'property': props[0], 'also': props[1:], 'rule': '-',
                  'edits': es, 'file': es[0]['file'], 'old': '', 'new': '',
                  'suite': 'BENIGN', 'expect': 'silent', 'what': what,
                  'source': 'hand-written benign twin (robustness contract)'})

bt('BT01', ['C01', 'C03', 'C12'], 'rename the loop variable of the take loop',
   (E, """                for path, advance in self.front.items():
                    if advance['time'] <= self.global_time \\
                            and advance['update']:
                        new_update = advance['update']
                        updates.append(new_update)
                        advance['update'] = {}
                        paths.append(path)
""", """                for path, entry in self.front.items():
                    if entry['time'] <= self.global_time \\
                            and entry['update']:
                        new_update = entry['update']
                        updates.append(new_update)
                        entry['update'] = {}
                        paths.append(path)
"""))
bt('BT02', ['C01'], 'due guard rewritten as a negated comparison',
   (E, """                    if advance['time'] <= self.global_time \\
                            and advance['update']:""",
       """                    if not advance['time'] > self.global_time \\
                            and advance['update']:"""))
bt('BT03', ['C01', 'C02', 'C03', 'C04', 'C10'], 'clear the slot before appending; take via index',
   (E, """                        new_update = advance['update']
                        updates.append(new_update)
                        advance['update'] = {}
""", """                        new_update = self.front[path]['update']
                        self.front[path]['update'] = {}
                        updates.append(new_update)
"""))
bt('BT04', ['C03', 'C01', 'C02', 'C12'], 'next event time computed in two steps',
   (E, "            next_time = self.global_time + full_step\n",
       "            next_time = self.global_time\n            next_time = next_time + full_step\n"))
bt('BT05', ['C01', 'C05', 'C07', 'C13'], 'results fetched in an explicit loop instead of a comprehension',
   (E, """        fetched_updates = [
            (update.get(), state) for update, state in update_tuples]

        view_expire = False
        for fetched, state in fetched_updates:""", """        fetched_updates = [
            (deferred.get(), store) for deferred, store in update_tuples]

        view_expire = False
        for fetched, state in fetched_updates:"""))
bt('BT06', ['C01', 'C04', 'C05', 'C07', 'C13'], 'renamed locals in the apply loop of run_steps',
   (E, """            for fetched, store in fetched_updates:
                view_expire_update = self.apply_update(fetched, store)
""", """            for result, target in fetched_updates:
                view_expire_update = self.apply_update(result, target)
"""))
bt('BT07', ['C02', 'C03', 'C01'], 'future computed first, then truncated',
   (E, """                    if force_complete and \\
                            process_time + process_timestep > end_time:
                        # force the process to complete at end_time by
                        # handing it only the remainder of the interval
                        future = end_time
                        process_timestep = end_time - process_time
                    else:
                        future = process_time + process_timestep
""", """                    future = process_time + process_timestep
                    if force_complete and future > end_time:
                        # force the process to complete at end_time by
                        # handing it only the remainder of the interval
                        future = end_time
                        process_timestep = future - process_time
"""))
bt('BT08', ['C10', 'C13', 'C07'], 'drop the redundant emptiness guards around the fold loops',
   (E, """        if topology_updates:
            for path, topology_update in topology_updates:
                assoc_path(self.topology, path, topology_update)

        if flow_updates:
            for path, flow_update in flow_updates:
                assoc_path(self.flow, path, flow_update)
""", """        for path, topology_update in topology_updates:
            assoc_path(self.topology, path, topology_update)

        for path, flow_update in flow_updates:
            assoc_path(self.flow, path, flow_update)
"""))
bt('BT09', ['C07', 'C09', 'C08', 'C10'], 'pop _delete together with the other structural keys',
   [(S, """            add_entries = update.pop('_add', None)
            if add_entries is not None:""", """            add_entries = update.pop('_add', None)
            delete_keys = update.pop('_delete', None)
            if add_entries is not None:"""),
    (S, """            delete_keys = update.pop('_delete', None)

            for key, value in update.items():""", """            for key, value in update.items():""")])
bt('BT10', ['C08'], 'accumulate through a local',
   (R, "    return current_value + new_value\n",
       "    result = current_value + new_value\n    return result\n"))
bt('BT11', ['C06', 'C01'], 'invert_topology indexes args instead of unpacking',
   (E, """    path, topology = args
    return inverse_topology(path[:-1], update, topology)""",
       """    path = args[0]
    topology = args[1]
    return inverse_topology(path[:-1], update, topology)"""))
bt('BT12', ['C06', 'C01', 'C13'], 'Defer built with keyword arguments',
   (E, """    absolute = Defer(
        process,
        invert_topology,
        (path, store.topology))""", """    absolute = Defer(
        defer=process,
        f=invert_topology,
        args=(path, store.topology))"""))
bt('BT13', ['C05', 'C04'], 'explicit membership test for deleted steps',
   (E, """                step = self._step_paths.get(path)
                if not step:
                    # Step was deleted by a previous step.
                    continue
""", """                if path not in self._step_paths:
                    # Step was deleted by a previous step.
                    continue
                step = self._step_paths[path]
"""))
bt('BT14', ['C13'], 'early return of end() written as a nested block',
   (P, """        if self._ended:
            return
        if self._pending_command:
            # Collect the result of any command that is still in flight
            # so that the child is free to receive the end command.
            self.get_command_result()
""", """        if self._ended:
            return
        if self._pending_command is not None and self._pending_command:
            # Collect the result of any command that is still in flight
            # so that the child is free to receive the end command.
            self.get_command_result()
"""))
bt('BT15', ['C09', 'C10', 'C13'], 'delete reports through a local absolute path',
   (S, """        deletions = []
        path = (key,)
        self._delete_path(path)
        deletions.append(tuple(here + path))
""", """        path = (key,)
        self._delete_path(path)
        absolute = tuple(here + path)
        deletions = [absolute]
"""))
bt('BT16', ['C11'], 'split halves bound to locals before returning',
   (R, """        if random.choice([True, False]):
            return [half + remainder, half]
        else:
            return [half, half + remainder]""", """        larger = half + remainder
        if random.choice([True, False]):
            return [larger, half]
        else:
            return [half, larger]"""))
bt('BT17', ['C12', 'C18'], 'query filter written with an early continue',
   ('vivarium/core/emitter.py', """                    if datum is not None:
                        path_data = (path, datum)
                        paths_data.append(path_data)
""", """                    if datum is None:
                        continue
                    path_data = (path, datum)
                    paths_data.append(path_data)
"""))
bt('BT18', ['C16'], 'merge copies into locals first',
   ('vivarium/core/composer.py', """        deep_merge(merge_processes, deep_copy_internal(processes))
""", """        own_processes = deep_copy_internal(processes)
        deep_merge(merge_processes, own_processes)
"""))
bt('BT19', ['C15', 'C16'], 'generate_state passes keywords',
   (S, "    store.generate(tuple(), processes, steps, flow, topology, initial_state)\n",
       "    store.generate(\n        path=tuple(), processes=processes, steps=steps, flow=flow,\n        topology=topology, initial_state=initial_state)\n"))
bt('BT20', ['C19'], 'timeline consumption with an explicit head variable',
   ('vivarium/processes/timeline.py', """        while self.timeline and time >= self.timeline[0][0]:
            _, change_dict = self.timeline.pop(0)
""", """        while self.timeline and self.timeline[0][0] <= time:
            head = self.timeline.pop(0)
            change_dict = head[1]
"""))
bt('BT21', ['C03', 'C01', 'C02'], 'quiet advance inlined instead of the helper (first branch)',
   (E, """                self.global_time = end_time
                self._advance_quiet_paths(quiet_paths)

            elif""", """                self.global_time = end_time
                for quiet in quiet_paths:
                    self.front[quiet]['time'] = self.global_time
                    self.front[quiet]['update'] = {}

            elif"""))
bt('BT22', ['C14'], 'regex written as a raw string',
   ('vivarium/core/serialize.py', "re.compile('!units\\\\[(.*)\\\\]')", "re.compile(r'!units\\[(.*)\\]')"))
bt('BT23', ['C08', 'C09', 'C07'], 'logging added in the structural handlers',
   (S, """                for added in add_entries:
                    self.add(added)
                view_expire = True
""", """                for added in add_entries:
                    log.debug('adding %s', added)
                    self.add(added)
                view_expire = True
"""))
bt('BT24', ['C10', 'C05'], 'step registration reads the flow dict through a local',
   (E, """                dependencies = flow_update_dict.get(path)
                assoc_path(self.steps, path, step)
                self._add_step_path(step, path, dependencies)
""", """                assoc_path(self.steps, path, step)
                self._add_step_path(step, path, flow_update_dict.get(path))
"""))
cat['variants'] += twins
(root / 'vsa/catalogue.json').write_text(json.dumps(cat, indent=1))
print(len(twins), 'benign twins')
