#!/bin/sh
# Clean-tree gate run before every commit of /verif: all quick checks must
# exit 0 on the unchanged tree and the catalogue must be fully detected.
cd /verif || exit 2
fail=0
/venv/bin/python -m vsa all > /tmp/vsa_all.log 2>&1 || fail=1
grep -E "VIOLATION|ANALYSIS-ERROR" /tmp/vsa_all.log && fail=1
/venv/bin/python -m vsa.selftest --strict > /tmp/vsa_selftest.log 2>&1 || fail=1
tail -3 /tmp/vsa_selftest.log
python3-vt - <<'PY' || fail=1
import json, jsonschema, glob
m=json.load(open('/verif/MANIFEST.json')); jsonschema.validate(m, json.load(open('/root/.vp/MANIFEST.schema.json')))
es=json.load(open('/root/.vp/EVIDENCE.schema.json'))
for c in m['checks']:
    jsonschema.validate(json.load(open(c['evidence_file'])), es)
print('manifest + %d evidence files valid' % len(m['checks']))
PY
[ $fail = 0 ] && echo CLEAN || echo NOT-CLEAN
exit $fail
