#!/venv/bin/python
"""Freeze the list of (module, qualified function name) of the tree the rules
were confirmed on -> vsa/pinned_functions.json.  Run by hand only, after
reading any function that is new."""
import ast, json, sys
from pathlib import Path
root = Path(sys.argv[1] if len(sys.argv) > 1 else '/repo')
out = []
for p in sorted((root / 'vivarium').rglob('*.py')):
    rel = str(p.relative_to(root))
    mod = rel[:-3].replace('/', '.')
    if mod.endswith('.__init__'):
        mod = mod[:-9]
    tree = ast.parse(p.read_text())
    for n in tree.body:
        if isinstance(n, ast.FunctionDef):
            out.append([mod, n.name])
        elif isinstance(n, ast.ClassDef):
            for s in n.body:
                if isinstance(s, ast.FunctionDef):
                    out.append([mod, n.name + '.' + s.name])
Path(__file__).resolve().parent.parent.joinpath('vsa/pinned_functions.json').write_text(json.dumps(out, indent=0))
print(len(out), 'functions')
