#!/bin/sh
# usage: tools/intake.sh <PROP> <n> <seed-id> "<needs>"   -- confirm + store an agent change
P=$1; N=$2; ID=$3; NEEDS=$4
WT=/tmp/agents/$P
RES=$(/verif/tools/confirm_seed.sh $WT $N)
echo "$ID: $RES"
case "$RES" in
  *"demo clean exit=0"*"123 passed"*) ;;
  *) echo "$ID NOT CONFIRMED"; exit 1;;
esac
case "$RES" in *"demo changed exit=0"*) echo "$ID demo does not fail with change"; exit 1;; esac
D=/verif/seeded/$ID
mkdir -p $D
cp /tmp/agents/PORT/rebased.diff $D/patch.diff
cp $WT/_out/demo$N.py $D/demo.py
FIRED=$(/venv/bin/python /verif/tools/try_patch.py $D/patch.diff | tail -1)
OWN=$(/venv/bin/python /verif/tools/try_patch.py $D/patch.diff $P | tail -1)
/venv/bin/python - "$ID" "$P" "$NEEDS" "$RES" "$FIRED" "$OWN" <<'PY'
import json, sys
i, p, needs, res, fired, own = sys.argv[1:7]
json.dump({
 'id': i, 'breaks_property': p, 'needs_to_manifest': needs,
 'origin': 'independent sub-agent given only the property text and a scratch worktree',
 'confirmed_by_me': {
   'commands': ['tools/confirm_seed.sh /tmp/agents/%s <n>: on a scratch worktree at the head of /repo: demo on the clean tree, demo with the patch, unedited suite with the patch (pytest -n 6, database tests deselected); patch.diff is the change as a diff against that head' % p],
   'result': res},
 'checks': {'all_properties': fired, 'own_property_check': own},
}, open('/verif/seeded/%s/meta.json' % i, 'w'), indent=1)
PY
echo "$ID stored; $FIRED; own: $OWN"
