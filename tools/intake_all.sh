#!/bin/sh
# usage: tools/intake_all.sh <PROP>   -- confirm + store all changes of /tmp/agents/<PROP>
P=$1
for f in /tmp/agents/$P/_out/change*.diff; do
  k=$(basename $f .diff | sed 's/change//')
  case "$k" in *ported*) continue;; esac
  n=1; while [ -d /verif/seeded/$P-s$n ] || [ -d /verif/seeded_retired/$P-s$n ]; do n=$((n+1)); done
  NEEDS=$(/venv/bin/python - "$P" "$k" <<'PY'
import json,sys
try:
    s=json.load(open('/tmp/agents/%s/_out/summary.json'%sys.argv[1]))
    e=[x for x in s if str(x.get('n'))==sys.argv[2]][0]
    print((e.get('what','')+' NEEDS: '+e.get('needs','')).replace('\n',' '))
except Exception as ex:
    print('see demo')
PY
)
  /verif/tools/intake.sh $P $k $P-s$n "$NEEDS" 2>&1 | tail -2
done
