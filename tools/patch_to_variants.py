#!/venv/bin/python
"""Turn the fix patches (design_appendix/fixes) into catalogue variants that
re-introduce the original defect (old = repaired text, new = pinned text)."""
import json, re, sys
from pathlib import Path
root = Path(__file__).resolve().parent.parent
PROPS = {'01': ('C10', 'R10.1'), '02': ('C18', 'R18.1'), '03': ('C08', 'R08.3'),
         '04': ('C02', 'R02.1'), '05': ('C13', 'R13.4'), '06': ('C16', 'R16.1'),
         '07': ('C10', 'R10.3'), '08': ('C06', 'R06.2'), '09': ('C19', 'R19.1'),
         '10': ('C03', 'R03.1'), '11': ('C09', 'R09.6'), '12': ('C11', 'R11.2'), '13': ('C10', 'R10.8'), '14': ('C08', 'R08.9'), '15': ('C16', 'R16.7'), '16': ('C13', 'R13.7'), '17': ('C10', 'R10.3'), '18': ('C03', 'R03.4'), '19': ('C07', 'R07.7'), '20': ('C10', 'R10.4')}
cat = json.loads((root / 'vsa/catalogue.json').read_text())
cat['variants'] = [v for v in cat['variants'] if not v['id'].startswith('FIX')]
for p in sorted((root / 'design_appendix/fixes').glob('*.patch')):
    num = p.name[:2]
    text = p.read_text().splitlines()
    edits = []
    file = None
    hunk = None
    def flush():
        if hunk:
            old = '\n'.join(l[1:] for l in hunk if l[:1] in (' ', '+')) + '\n'
            new = '\n'.join(l[1:] for l in hunk if l[:1] in (' ', '-')) + '\n'
            src = (Path('/repo') / file).read_text()
            ol, nl = old.splitlines(True), new.splitlines(True)
            while src.count(''.join(ol)) != 1 and ol and nl and ol[-1] == nl[-1]:
                ol.pop(); nl.pop()
            while src.count(''.join(ol)) != 1 and ol and nl and ol[0] == nl[0]:
                ol.pop(0); nl.pop(0)
            edits.append({'file': file, 'old': ''.join(ol), 'new': ''.join(nl)})
    for l in text:
        if l.startswith('+++ b/'):
            file = l[6:]
        elif l.startswith('@@'):
            flush(); hunk = []
        elif hunk is not None and l[:1] in (' ', '+', '-') and not l.startswith('---') and not l.startswith('+++'):
            hunk.append(l)
        elif l.startswith('diff --git'):
            flush(); hunk = None
    flush()
    prop, rule = PROPS[num]
    cat['variants'].append({
        'id': 'FIX' + num, 'property': prop, 'rule': rule, 'edits': edits,
        'file': edits[0]['file'], 'old': '', 'new': '',
        'suite': 'SURVIVES', 'expect': 'fire',
        'source': 'reverse of fix patch ' + p.name,
        'what': 'the original defect of the pinned tree (passes the unedited suite): ' + p.name})
(root / 'vsa/catalogue.json').write_text(json.dumps(cat, indent=1))
print(len(cat['variants']))
