#!/venv/bin/python
"""Metamorphic robustness test of the analyser.

Applies mechanical, behaviour-preserving source transformations to one
function at a time (every function any rule consults), and runs all checks on
the transformed tree (in-memory overlay; /repo is never touched).  A check
that reports a new violation or cannot complete on such a variant has a false
alarm.  Transformations:

  rename   every local that is not a parameter gets a new, meaningless name
  suffix   every local gets a suffix (domain words stay recognisable)
  swapif   if c: A else: B   ->   if not c: B else: A
  items    for k, v in d.items(): ...   ->   for k in d: v = d[k]; ...
  temps    the arguments of calls in expression/assign statements that are
           not simple names are evaluated into fresh locals first (only when
           every earlier sibling argument is simple, so the order of
           evaluation is unchanged)
  kwargs   positional arguments of calls to uniquely named repository
           functions are passed by keyword
  early    a function body ending in  if c: A else: B  ->  if c: A; return
           followed by B (only when neither branch falls through to more code)

usage: tools/metamorph.py [--only T1,T2] [--fn Qual.name] [-j N]
"""
import ast
import copy
import os
import sys
from multiprocessing import Pool
from pathlib import Path

sys.path.insert(0, str(Path(__file__).resolve().parent.parent))
from vsa.loader import Repo  # noqa: E402
from vsa.__main__ import run_check  # noqa: E402
from vsa.rules import RULES  # noqa: E402

BASE = {}


# ------------------------------------------------------------ transformations
def _locals(fn):
    params = {a.arg for a in fn.args.args + fn.args.kwonlyargs
              + fn.args.posonlyargs}
    if fn.args.vararg:
        params.add(fn.args.vararg.arg)
    if fn.args.kwarg:
        params.add(fn.args.kwarg.arg)
    assigned = set()
    banned = set()
    for n in ast.walk(fn):
        if isinstance(n, ast.Name) and isinstance(n.ctx, (ast.Store, ast.Del)):
            assigned.add(n.id)
        if isinstance(n, (ast.Global, ast.Nonlocal)):
            banned |= set(n.names)
        if n is not fn and isinstance(n, (ast.FunctionDef, ast.Lambda,
                                          ast.AsyncFunctionDef)):
            a = n.args
            banned |= {x.arg for x in a.args + a.kwonlyargs + a.posonlyargs}
            if isinstance(n, ast.FunctionDef):
                banned.add(n.name)
        if isinstance(n, ast.ExceptHandler) and n.name:
            banned.add(n.name)
    return assigned - params - banned


def t_rename(fn, harsh=True):
    names = sorted(_locals(fn))
    if not names:
        return None
    allnames = {n.id for n in ast.walk(fn) if isinstance(n, ast.Name)}
    mp = {}
    for i, nm in enumerate(names):
        new = ('q%d' % i) if harsh else nm + '_x'
        while new in allnames:
            new += '_'
        mp[nm] = new
    for n in ast.walk(fn):
        if isinstance(n, ast.Name) and n.id in mp:
            n.id = mp[n.id]
    return fn


def t_suffix(fn):
    return t_rename(fn, harsh=False)


def t_swapif(fn):
    done = False
    for n in ast.walk(fn):
        if isinstance(n, ast.If) and n.orelse and not (
                len(n.orelse) == 1 and isinstance(n.orelse[0], ast.If)):
            n.test = ast.UnaryOp(op=ast.Not(), operand=n.test)
            n.body, n.orelse = n.orelse, n.body
            done = True
    return fn if done else None


def t_items(fn):
    done = False
    for n in ast.walk(fn):
        if isinstance(n, ast.For) and isinstance(n.iter, ast.Call) and \
                isinstance(n.iter.func, ast.Attribute) and \
                n.iter.func.attr == 'items' and not n.iter.args and \
                isinstance(n.target, ast.Tuple) and len(n.target.elts) == 2 \
                and isinstance(n.target.elts[0], ast.Name) and isinstance(
                    n.iter.func.value, (ast.Name, ast.Attribute)):
            d = n.iter.func.value
            k, v = n.target.elts
            # the body must not rebind the key before... (it may; d[k] is
            # read first) - and must not mutate d's keys (it could not under
            # .items() either)
            n.iter = copy.deepcopy(d)
            n.target = ast.Name(id=k.id, ctx=ast.Store())
            asg = ast.Assign(
                targets=[v],
                value=ast.Subscript(value=copy.deepcopy(d),
                                    slice=ast.Name(id=k.id, ctx=ast.Load()),
                                    ctx=ast.Load()))
            n.body.insert(0, asg)
            done = True
    return fn if done else None


def _simple(e):
    return isinstance(e, (ast.Name, ast.Constant)) or (
        isinstance(e, ast.Attribute) and _simple(e.value))


def t_temps(fn):
    cnt = [0]
    allnames = {n.id for n in ast.walk(fn) if isinstance(n, ast.Name)}

    def fresh():
        cnt[0] += 1
        nm = 'tmp_arg%d' % cnt[0]
        while nm in allnames:
            nm += '_'
        return nm

    def rewrite(body):
        out = []
        for st in body:
            for f in ('body', 'orelse', 'finalbody'):
                if hasattr(st, f) and isinstance(getattr(st, f), list):
                    setattr(st, f, rewrite(getattr(st, f)))
            if isinstance(st, ast.Try):
                for h in st.handlers:
                    h.body = rewrite(h.body)
            call = None
            if isinstance(st, ast.Expr) and isinstance(st.value, ast.Call):
                call = st.value
            elif isinstance(st, ast.Assign) and isinstance(
                    st.value, ast.Call) and all(
                    isinstance(t, ast.Name) for t in st.targets):
                call = st.value
            elif isinstance(st, ast.Return) and isinstance(
                    st.value, ast.Call):
                call = st.value
            if call is not None and _simple(call.func) and not any(
                    isinstance(a, ast.Starred) for a in call.args):
                pre = []
                for i, a in enumerate(call.args):
                    if _simple(a):
                        continue
                    if isinstance(a, (ast.Lambda, ast.GeneratorExp)):
                        break
                    nm = fresh()
                    pre.append(ast.Assign(
                        targets=[ast.Name(id=nm, ctx=ast.Store())], value=a))
                    call.args[i] = ast.Name(id=nm, ctx=ast.Load())
                    # later arguments keep their order only if simple
                    if any(not _simple(b) for b in call.args[i + 1:]) or \
                            call.keywords:
                        break
                out.extend(pre)
            out.append(st)
        return out
    fn.body = rewrite(fn.body)
    return fn if cnt[0] else None


SIGS = {}


def t_kwargs(fn):
    done = False
    for n in ast.walk(fn):
        if not isinstance(n, ast.Call):
            continue
        if isinstance(n.func, ast.Attribute):
            nm, off = n.func.attr, 1
        elif isinstance(n.func, ast.Name):
            nm, off = n.func.id, 0
        else:
            continue
        sig = SIGS.get(nm)
        if not sig:
            continue
        params, is_method = sig
        if is_method != bool(off):
            continue
        ps = params[1:] if is_method else params
        if any(isinstance(a, ast.Starred) for a in n.args) or \
                len(n.args) > len(ps) or not n.args:
            continue
        # keep the first argument positional, pass the others by keyword
        keep = 1 if len(n.args) > 1 else 0
        if keep == 0:
            continue
        new_kw = [ast.keyword(arg=ps[i], value=a)
                  for i, a in enumerate(n.args) if i >= keep]
        if any(k.arg in {x.arg for x in new_kw} for k in n.keywords):
            continue
        n.args = n.args[:keep]
        n.keywords = new_kw + n.keywords
        done = True
    return fn if done else None


def _falls_through(body):
    last = body[-1]
    return not isinstance(last, (ast.Return, ast.Raise, ast.Continue,
                                 ast.Break))


def t_early(fn):
    if not fn.body:
        return None
    last = fn.body[-1]
    if isinstance(last, ast.If) and last.orelse and not (
            len(last.orelse) == 1 and isinstance(last.orelse[0], ast.If)):
        body = list(last.body)
        if _falls_through(body):
            body.append(ast.Return(value=None))
        rest = list(last.orelse)
        last.body = body
        last.orelse = []
        fn.body.extend(rest)
        return fn
    return None


def t_flipcmp(fn):
    """a <= b -> b >= a ; a == b -> b == a ; a < b -> b > a"""
    flip = {ast.Lt: ast.Gt, ast.LtE: ast.GtE, ast.Gt: ast.Lt,
            ast.GtE: ast.LtE, ast.Eq: ast.Eq, ast.NotEq: ast.NotEq}
    done = False
    for n in ast.walk(fn):
        if isinstance(n, ast.Compare) and len(n.ops) == 1 and \
                type(n.ops[0]) in flip and _simple(n.left) and \
                _simple(n.comparators[0]):
            n.left, n.comparators[0] = n.comparators[0], n.left
            n.ops[0] = flip[type(n.ops[0])]()
            done = True
    return fn if done else None


def t_splitand(fn):
    """if a and b: S  (no else)  ->  if a: if b: S"""
    done = False
    for n in ast.walk(fn):
        if isinstance(n, ast.If) and not n.orelse and isinstance(
                n.test, ast.BoolOp) and isinstance(n.test.op, ast.And) \
                and len(n.test.values) == 2:
            a, b = n.test.values
            inner = ast.If(test=b, body=n.body, orelse=[])
            n.test = a
            n.body = [inner]
            done = True
    return fn if done else None


def t_elif(fn):
    """elif c: ...  ->  else: if c: ...   (same tree in the ast; this
    transformation instead nests the trailing else: `if a: A else: B`
    with B starting by an if stays as is) - here: if a: A; elif b: B  with
    returns at the end of A  ->  if a: A;  if b: B"""
    done = False
    for blk_owner in ast.walk(fn):
        for f in ('body', 'orelse'):
            blk = getattr(blk_owner, f, None)
            if not isinstance(blk, list):
                continue
            for i, st in enumerate(list(blk)):
                if isinstance(st, ast.If) and st.orelse and not \
                        _falls_through(st.body) and isinstance(
                            st, ast.If):
                    rest = st.orelse
                    st.orelse = []
                    j = blk.index(st)
                    blk[j + 1:j + 1] = rest
                    done = True
    return fn if done else None


def t_retvar(fn):
    """return <expr>  ->  result_value = <expr>; return result_value"""
    done = False
    allnames = {n.id for n in ast.walk(fn) if isinstance(n, ast.Name)}
    nm = 'result_value'
    while nm in allnames:
        nm += '_'
    for blk_owner in ast.walk(fn):
        if isinstance(blk_owner, (ast.Lambda,)):
            continue
        for f in ('body', 'orelse', 'finalbody'):
            blk = getattr(blk_owner, f, None)
            if not isinstance(blk, list):
                continue
            for st in list(blk):
                if isinstance(st, ast.Return) and st.value is not None \
                        and not _simple(st.value):
                    j = blk.index(st)
                    blk[j:j + 1] = [
                        ast.Assign(targets=[ast.Name(id=nm,
                                                     ctx=ast.Store())],
                                   value=st.value),
                        ast.Return(value=ast.Name(id=nm, ctx=ast.Load()))]
                    done = True
    return fn if done else None


def t_aug(fn):
    """x = x + e  <->  x += e   for plain names bound to numbers is not
    decidable here; only  x += e -> x = x + e  for names that are never
    used as containers (no method call, subscript or iteration on x)"""
    done = False
    cont = set()
    for n in ast.walk(fn):
        if isinstance(n, (ast.Attribute, ast.Subscript)) and isinstance(
                n.value, ast.Name):
            cont.add(n.value.id)
        if isinstance(n, (ast.For, ast.comprehension)) and isinstance(
                n.iter, ast.Name):
            cont.add(n.iter.id)
    for blk_owner in ast.walk(fn):
        for f in ('body', 'orelse', 'finalbody'):
            blk = getattr(blk_owner, f, None)
            if not isinstance(blk, list):
                continue
            for st in list(blk):
                if isinstance(st, ast.AugAssign) and isinstance(
                        st.target, ast.Name) and st.target.id not in cont \
                        and isinstance(st.op, (ast.Add, ast.Sub)) and not \
                        isinstance(st.value, (ast.List, ast.ListComp,
                                              ast.Tuple)):
                    j = blk.index(st)
                    blk[j] = ast.Assign(
                        targets=[ast.Name(id=st.target.id, ctx=ast.Store())],
                        value=ast.BinOp(left=ast.Name(id=st.target.id,
                                                      ctx=ast.Load()),
                                        op=st.op, right=st.value))
                    done = True
    return fn if done else None


TRANSFORMS = {
    'rename': t_rename, 'suffix': t_suffix, 'swapif': t_swapif,
    'items': t_items, 'temps': t_temps, 'kwargs': t_kwargs,
    'early': t_early, 'flipcmp': t_flipcmp, 'splitand': t_splitand,
    'elif': t_elif, 'retvar': t_retvar, 'aug': t_aug,
}


# --------------------------------------------------------------------- driver
def make_variant(src, qual, tname):
    tree = ast.parse(src)
    target = None
    parts = qual.split('.')
    for n in tree.body:
        if len(parts) == 1 and isinstance(n, ast.FunctionDef) and \
                n.name == parts[0]:
            target = n
        if len(parts) == 2 and isinstance(n, ast.ClassDef) and \
                n.name == parts[0]:
            for s in n.body:
                if isinstance(s, ast.FunctionDef) and s.name == parts[1]:
                    target = s
                    break
    if target is None:
        return None
    res = TRANSFORMS[tname](target)
    if res is None:
        return None
    ast.fix_missing_locations(tree)
    try:
        out = ast.unparse(tree)
        compile(out, 'x', 'exec')
    except Exception:
        return None
    return out


def work(job):
    file, qual, tname = job
    src = Path('/repo', file).read_text() if not os.environ.get(
        'VSA_REPO') else Path(os.environ['VSA_REPO'], file).read_text()
    new = make_variant(src, qual, tname)
    if new is None:
        return job, None
    out = []
    from vsa.__main__ import clear_caches
    from vsa.loader import AnalysisError
    clear_caches()
    try:
        rp = Repo(overlay={file: new})
    except AnalysisError as e:
        return job, ['ALL ANALYSIS-ERROR %s' % e]
    for p in sorted(RULES):
        c = run_check(p, 'quick', write=False, quiet=True, repo=rp)
        if c.status == 2:
            out.append('%s ANALYSIS-ERROR %s' % (p, (c.error or '')[:160]))
        for v in c.violations:
            if v.key() not in BASE[p]:
                out.append('%s %s %s | %s' % (p, v.rule, v.function,
                                              v.message[:120]))
    return job, out


def main():
    import argparse
    ap = argparse.ArgumentParser()
    ap.add_argument('--only')
    ap.add_argument('--fn')
    ap.add_argument('-j', type=int, default=16)
    ap.add_argument('--baseline', action='store_true',
                    help='also run the identity (unparse only) variant')
    a = ap.parse_args()
    repo = Repo()
    funcs = set()
    for p in sorted(RULES):
        c = run_check(p, 'quick', write=False, quiet=True)
        BASE[p] = {v.key() for v in c.violations}
        funcs |= set(c.functions)
    # signatures of uniquely named repository functions (for kwargs)
    byname = {}
    for f in repo.functions:
        if f.is_test or f.nested_in:
            continue
        byname.setdefault(f.name, []).append(f)
    for nm, fs in byname.items():
        if len(fs) == 1 and not fs[0].node.args.vararg and \
                not fs[0].node.args.kwarg and not nm.startswith('__'):
            SIGS[nm] = ([x.arg for x in fs[0].node.args.args],
                        fs[0].cls is not None)
    jobs = []
    tnames = a.only.split(',') if a.only else sorted(TRANSFORMS)
    seen = set()
    for fq in sorted(funcs):
        f = None
        for g in repo.functions:
            if (g.file, g.qual) == fq or g.qual == fq or \
                    getattr(g, 'fq', None) == fq:
                f = g
                break
        if f is None or f.nested_in or f.is_test:
            continue
        if a.fn and f.qual != a.fn:
            continue
        if (f.file, f.qual) in seen:
            continue
        seen.add((f.file, f.qual))
        for t in tnames:
            jobs.append((f.file, f.qual, t))
    print('%d functions, %d jobs' % (len(seen), len(jobs)))
    with Pool(a.j, maxtasksperchild=20) as pool:
        res = pool.map(work, jobs, chunksize=2)
    made = sum(1 for _j, o in res if o is not None)
    bad = [(j, o) for j, o in res if o]
    for (file, qual, t), o in bad:
        print('== %s %s [%s]' % (file, qual, t))
        for line in o:
            print('     ' + line)
    per = {}
    for (file, qual, t), o in res:
        if o is not None:
            per.setdefault(t, [0, 0])
            per[t][0] += 1
            per[t][1] += bool(o)
    print('variants: %d, with alarms: %d' % (made, len(bad)))
    for t, (n, b) in sorted(per.items()):
        print('  %-8s %4d variants, %3d alarms' % (t, n, b))


if __name__ == '__main__':
    main()
