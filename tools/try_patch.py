#!/venv/bin/python
"""Run the checks against a patch WITHOUT touching /repo: the patch is applied
to temporary copies of the files it touches and handed to the analyser as an
in-memory overlay.   usage: tools/try_patch.py <patch.diff> [C01 C02 ...]"""
import os, re, shutil, subprocess, sys, tempfile
from pathlib import Path
sys.path.insert(0, str(Path(__file__).resolve().parent.parent))
from vsa.__main__ import run_check
from vsa.rules import RULES


from vsa.selftest import overlay_from_patch as _ofp


def overlay_from_patch(patch, root='/repo'):
    ov = _ofp(patch, root)
    if ov is None:
        raise SystemExit('patch failed to apply')
    return ov


def main():
    patch = sys.argv[1]
    props = [p.upper() for p in sys.argv[2:]] or sorted(RULES)
    ov = overlay_from_patch(patch)
    base = {}
    out = {}
    und = []
    from vsa.__main__ import parse_tree
    r0, r1 = parse_tree(), parse_tree(overlay=ov)
    for p in props:
        b = run_check(p, 'quick', write=False, quiet=True, repo=r0)
        c = run_check(p, 'quick', write=False, quiet=True, repo=r1)
        bk = {v.key() for v in b.violations}
        # what the command would print as VIOLATION: unlisted violations
        # that survive the restructuring gate
        new = [v for v in (c.unlisted if c.status != 2 else [])
               if v.key() not in bk]
        if c.status == 2:
            print(p, 'ANALYSIS-ERROR', (c.error or '')[:300])
            und.append(p)
        for v in new:
            print(p, v.rule, v.function, '|', v.message[:150])
        out[p] = bool(new)
    if und:
        print('UNDECIDED (exit 2):', und)
    print('FIRED:', [p for p, f in out.items() if f] or 'none')


if __name__ == '__main__':
    main()
    sys.stdout.flush()
    os._exit(0)
