#!/bin/sh
# Re-runs the demonstration of every stored seeded change on a scratch
# worktree at the current head of /repo: it must pass on the clean tree and
# fail with the change.  (The suite is not re-run here.)  Prints one line per
# change that no longer behaves like that.
PORT=/tmp/agents/PORT
[ -d $PORT ] || git -C /repo worktree add -q --detach $PORT HEAD
cd $PORT && git checkout -q -- . && git checkout -q --detach $(git -C /repo rev-parse HEAD) || exit 2
mkdir -p $PORT/_out
n=0; bad=0
for d in /verif/seeded/*/; do
  id=$(basename $d); n=$((n+1))
  cd $PORT && git checkout -q -- vivarium
  cp $d/demo.py _out/demo.py
  (cd _out && PYTHONPATH=$PORT timeout 600 /venv/bin/python demo.py >/dev/null 2>&1); C=$?
  if ! git apply $d/patch.diff 2>/dev/null; then echo "$id: patch does not apply"; bad=$((bad+1)); continue; fi
  (cd _out && PYTHONPATH=$PORT timeout 600 /venv/bin/python demo.py >/dev/null 2>&1); D=$?
  git checkout -q -- vivarium
  if [ $C != 0 ] || [ $D = 0 ]; then echo "$id: clean=$C changed=$D"; bad=$((bad+1)); fi
done
echo "reconfirmed $n seeded changes, $bad not behaving as recorded"
