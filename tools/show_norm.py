#!/venv/bin/python
"""Print the canonical form of a function as the rules see it.
usage: tools/show_norm.py <Qual.name> [patch.diff]"""
import ast, sys
from pathlib import Path
sys.path.insert(0, str(Path(__file__).resolve().parent.parent))
from vsa.loader import Repo
from vsa.selftest import overlay_from_patch
ov = overlay_from_patch(sys.argv[2]) if len(sys.argv) > 2 else None
r = Repo(overlay=ov)
print('inlined:', r.inlined)
f = r.fn(sys.argv[1])
print(ast.unparse(f.node))
