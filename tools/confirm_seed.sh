#!/bin/sh
# usage: tools/confirm_seed.sh <agent worktree> <n>
# Confirms change n of an agent on a scratch worktree at the CURRENT head of
# /repo (/tmp/agents/PORT): 1. demo passes on the clean tree  2. demo fails
# with the change  3. the unedited suite passes with the change.
# Leaves /tmp/agents/PORT/rebased.diff = the change as a diff against HEAD.
WT=$1; N=$2
PORT=/tmp/agents/PORT
[ -d $PORT ] || git -C /repo worktree add -q --detach $PORT HEAD
cd $PORT && git checkout -q -- . && git checkout -q --detach $(git -C /repo rev-parse HEAD) || exit 2
mkdir -p $PORT/_out && cp $WT/_out/demo$N.py $PORT/_out/demo.py
cd $PORT/_out && PYTHONPATH=$PORT timeout 300 /venv/bin/python demo.py > /tmp/confirm_clean.log 2>&1; C=$?
SRC=$WT/_out/change$N.diff
[ -f $WT/_out/change$N.ported.diff ] && SRC=$WT/_out/change$N.ported.diff
cd $PORT && patch -p1 -s --no-backup-if-mismatch < $SRC > /tmp/confirm_patch.log 2>&1 || { echo "patch does not apply to HEAD"; git checkout -q -- .; exit 2; }
find . -name '*.orig' -delete; git diff -- vivarium > $PORT/rebased.diff
cd $PORT/_out && PYTHONPATH=$PORT timeout 300 /venv/bin/python demo.py > /tmp/confirm_changed.log 2>&1; D=$?
cd $PORT && PYTHONPATH=$PORT /venv/bin/python -m pytest -q -p no:cacheprovider -n 6 --deselect vivarium/experiments/large_experiment.py 2>&1 | tail -1 > /tmp/confirm_suite.log
cd $PORT && git checkout -q -- vivarium
echo "demo clean exit=$C  demo changed exit=$D  suite: $(cat /tmp/confirm_suite.log)"
