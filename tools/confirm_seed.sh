#!/bin/sh
# usage: tools/confirm_seed.sh <worktree> <n>   (confirms change n of an agent)
# 1. demo passes on the clean tree  2. demo fails with the change
# 3. unedited suite passes with the change.  Leaves the worktree clean.
WT=$1; N=$2
cd $WT && git checkout -q -- vivarium || exit 2
cd $WT/_out && PYTHONPATH=$WT timeout 300 /venv/bin/python demo$N.py > /tmp/confirm_clean.log 2>&1; C=$?
cd $WT && git apply _out/change$N.diff || { echo "patch does not apply"; exit 2; }
cd $WT/_out && PYTHONPATH=$WT timeout 300 /venv/bin/python demo$N.py > /tmp/confirm_changed.log 2>&1; D=$?
cd $WT && PYTHONPATH=$WT /venv/bin/python -m pytest -q -p no:cacheprovider -n 6 --deselect vivarium/experiments/large_experiment.py 2>&1 | tail -1 > /tmp/confirm_suite.log
cd $WT && git checkout -q -- vivarium
echo "demo clean exit=$C  demo changed exit=$D  suite: $(cat /tmp/confirm_suite.log)"
