from vivarium.core.process import Process
from vivarium.core.engine import Engine

class A(Process):
    def ports_schema(self): return {'agents': {'*': {'internal': {'x': {'_default': 1}}}}}
    def next_update(self, t, states):
        self.seen = states
        return {}
class B(Process):
    def ports_schema(self): return {'agents': {'*': {'internal': {'y': {'_default': 2}}}}}
    def next_update(self, t, states): return {}

if __name__ == '__main__':
    a, b = A(), B()
    e = Engine(processes={'a': a, 'b': b},
               topology={'a': {'agents': ('agents',)}, 'b': {'agents': ('agents',)}},
               initial_state={'agents': {'c1': {}}}, display_info=False)
    e.update(1)
    print('A declared internal.x only; A was shown:', a.seen)
    print('A.schema:', a.schema)
    assert set(a.seen['agents']['c1']['internal']) == {'x'}, 'A sees a variable it never declared'
    print('ok')
