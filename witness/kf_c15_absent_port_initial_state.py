"""A declared port that the topology omits: the store is built at (port,) but
Composite.initial_state() drops the process's initial value for it."""
from vivarium.core.process import Process
from vivarium.core.composer import Composite
from vivarium.core.engine import Engine

class P(Process):
    defaults = {'timestep': 1.0}
    def ports_schema(self):
        return {'a': {'x': {'_default': 0.0}}, 'b': {'y': {'_default': 0.0}}}
    def initial_state(self, config=None):
        return {'a': {'x': 5.0}, 'b': {'y': 7.0}}
    def next_update(self, timestep, states):
        return {}

if __name__ == '__main__':
    c = Composite({'processes': {'p': P()}, 'topology': {'p': {'a': ('a',)}}})  # port b omitted
    init = c.initial_state()
    print(init)
    sim = Engine(composite=c, initial_state=init, progress_bar=False)
    print(sim.state.get_value(condition=lambda x: not hasattr(x.value, 'next_update')))
    assert init.get('b', {}).get('y') == 7.0, init
    print('ok')
