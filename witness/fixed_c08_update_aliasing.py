"""Witness for the defect repaired by the commit 'fix: do not let the inverted
update share dictionaries with the update a process returned'.
A process that returns the same (cached) update object every tick, with two
ports wired to the same branch: before the fix inverse_topology wrote the
_multi_update marker INTO the process's own update, so from the second tick on
the first port's contribution was applied again and again."""
from vivarium.core.process import Process
from vivarium.core.engine import Engine


class Cached(Process):
    def __init__(self, p=None):
        super().__init__(p)
        self.update = {'p': {'a': {'c': 1}}, 'q': {'a': {'c': 10}}}

    def ports_schema(self):
        return {'p': {'a': {'c': {'_default': 0}}},
                'q': {'a': {'c': {'_default': 0}}}}

    def next_update(self, timestep, states):
        return self.update


if __name__ == '__main__':
    proc = Cached()
    e = Engine(processes={'proc': proc},
               topology={'proc': {'p': ('node',), 'q': ('node',)}},
               display_info=False)
    e.update(3)
    c = e.state.get_value()['node']['a']['c']
    print('c =', c, '(expected 33);  update object now:', proc.update)
    assert proc.update == {'p': {'a': {'c': 1}}, 'q': {'a': {'c': 10}}}, \
        'the update returned by the process was modified'
    assert c == 33
    print('ok')
