"""Witness for the known finding C06/R06.1 (run with /venv/bin/python).
A declared port omitted from the topology is read at (port,) but updates
returned for it are dropped by inverse_topology."""
from vivarium.core.process import Process
from vivarium.core.engine import Engine


class P(Process):
    def ports_schema(self):
        return {'a': {'v': {'_default': 0, '_emit': True}},
                'b': {'w': {'_default': 0, '_emit': True}}}

    def next_update(self, timestep, states):
        assert 'b' in states and 'w' in states['b']   # b.w is readable
        return {'a': {'v': 1}, 'b': {'w': 1}}


if __name__ == '__main__':
    e = Engine(processes={'p': P()}, topology={'p': {'a': ('A',)}},
               display_info=False)
    e.update(3)
    v = e.state.get_value()
    print('A.v =', v['A']['v'], ' b.w =', v['b']['w'])
    assert v['A']['v'] == 3
    print('DEFECT CONFIRMED' if v['b']['w'] == 0 else 'not reproduced')
