"""Witness for the known finding C10/R10.11 (and C01/R01.12): a process with an
update in flight whose compartment is moved loses its front entry; the update
is never applied and the next invocation raises "... is still pending"."""
from vivarium.core.process import Process
from vivarium.core.engine import Engine

class Inner(Process):
    defaults = {'time_step': 2}
    def __init__(self, p=None):
        super().__init__(p); self.calls = []
    def ports_schema(self): return {'s': {'x': {'_default': 0}}}
    def next_update(self, t, states):
        self.calls.append(t); return {'s': {'x': t}}

class Mover(Process):
    defaults = {'time_step': 1}
    def __init__(self, p=None):
        super().__init__(p); self.n = 0
    def ports_schema(self): return {'src': {'*': {}}, 'dst': {'*': {}}}
    def next_update(self, t, states):
        self.n += 1
        if self.n != 1: return {}
        return {'src': {'_move': [{'source': 'cell', 'target': 'dst'}]}}

if __name__ == '__main__':
    inner = Inner()
    e = Engine(processes={'left': {'cell': {'inner': inner}}, 'mover': Mover()},
               topology={'left': {'cell': {'inner': {'s': ('s',)}}},
                         'mover': {'src': ('left',), 'dst': ('right',)}},
               initial_state={'left': {'cell': {'s': {'x': 0}}}}, display_info=False)
    e.update(6)
    x = e.state.get_value()['right']['cell']['s']['x']
    print('timesteps handed to inner:', inner.calls, 'sum =', sum(inner.calls), ' x =', x, ' elapsed = 6')
    print('DEFECT CONFIRMED: an update that was computed is never applied' if x != sum(inner.calls) else 'ok')
