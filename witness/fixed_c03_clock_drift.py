from vivarium.core.process import Process
from vivarium.core.engine import Engine
class Adaptive(Process):
    def __init__(self, p=None):
        super().__init__(p); self.n = 0
    def ports_schema(self): return {'s': {'x': {'_default': 0.0, '_emit': True}}}
    def calculate_timestep(self, states):
        self.n += 1
        return 0.3 if self.n == 1 else 0.6
    def next_update(self, t, states): return {'s': {'x': t}}
if __name__ == '__main__':
    e = Engine(processes={'p': Adaptive()}, topology={'p': {'s': ('s',)}}, display_info=False, global_time_precision=1)
    try:
        e.update(0.9)
        print('ok', e.global_time, e.front, e.state.get_value()['s'])
    except BaseException as err:
        print('ERROR', type(err).__name__, str(err)[:150]); print(e.global_time, e.front)
