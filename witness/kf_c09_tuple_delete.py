"""Witness for the known finding C09/R09.3: a `_delete` entry given as a
path (tuple), the documented form, deletes nothing."""
from vivarium.core.process import Process
from vivarium.core.engine import Engine


class Deleter(Process):
    def ports_schema(self):
        return {'agents': {'*': {'x': {'_default': 0}}}}

    def next_update(self, timestep, states):
        return {'agents': {'_delete': [('a1',)]}}


if __name__ == '__main__':
    e = Engine(processes={'d': Deleter()},
               topology={'d': {'agents': ('agents',)}},
               initial_state={'agents': {'a1': {'x': 1}, 'a2': {'x': 2}}},
               display_info=False)
    e.update(1)
    kids = sorted(e.state.get_value()['agents'])
    print('children after _delete [("a1",)]:', kids)
    print('DEFECT CONFIRMED' if 'a1' in kids else 'not reproduced')
