"""Witness for the known finding C13/R13.7: a parallel process is deleted by
an update that is applied earlier in the SAME batch in which its own update
is due. Deleting ends the worker (draining the result); the batch then tries
to fetch the result of the ended process and the engine raises."""
from vivarium.core.process import Process
from vivarium.core.engine import Engine


class Victim(Process):
    def ports_schema(self):
        return {'s': {'x': {'_default': 0}}}

    def next_update(self, timestep, states):
        return {'s': {'x': 1}}


class Deleter(Process):
    def __init__(self, p=None):
        super().__init__(p)
        self.done = False

    def ports_schema(self):
        return {'agents': {'*': {}}}

    def next_update(self, timestep, states):
        if self.done:
            return {}
        self.done = True
        return {'agents': {'_delete': ['cell']}}


if __name__ == '__main__':
    e = Engine(
        processes={'deleter': Deleter(),
                   'agents': {'cell': {'victim': Victim({'_parallel': True})}, 'other': {'victim': Victim()}}},
        topology={'deleter': {'agents': ('agents',)},
                  'agents': {'cell': {'victim': {'s': ('s',)}}, 'other': {'victim': {'s': ('s',)}}}},
        display_info=False)
    try:
        e.update(2)
        print('no error - not reproduced')
    except Exception as err:
        print('DEFECT CONFIRMED -', type(err).__name__, str(err)[:100])
    finally:
        try:
            e.end()
        except Exception:
            pass
