from vivarium.core.process import Process
from vivarium.core.engine import Engine

class Inner(Process):
    def ports_schema(self): return {'s': {'x': {'_default': 0}}}
    def next_update(self, t, states): return {'s': {'x': 1}}

class Mover(Process):
    def __init__(self, p=None):
        super().__init__(p); self.done = False
    def ports_schema(self): return {'src': {'*': {}}, 'dst': {'*': {}}}
    def next_update(self, t, states):
        if self.done: return {}
        self.done = True
        return {'src': {'_move': [{'source': ('grp', 'cell'), 'target': 'dst'}]}}

if __name__ == '__main__':
    e = Engine(processes={'left': {'grp': {'cell': {'inner': Inner()}}}, 'mover': Mover()},
               topology={'left': {'grp': {'cell': {'inner': {'s': ('s',)}}}},
                         'mover': {'src': ('left',), 'dst': ('right',)}},
               initial_state={'left': {'grp': {'cell': {'s': {'x': 0}}}}}, display_info=False)
    e.update(1)
    print('process_paths:', sorted(e.process_paths))
    print('state keys right:', e.state.get_value().get('right'))
    try:
        e.update(2)
        print('ok; x =', e.state.get_value())
    except Exception as err:
        print('ERROR', type(err).__name__, str(err)[:200])
