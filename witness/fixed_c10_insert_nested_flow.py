from vivarium.core.process import Process, Step
from vivarium.core.engine import Engine

class S(Step):
    def ports_schema(self): return {'s': {'x': {'_default': 0}}}
    def next_update(self, t, states): return {}

class Gen(Process):
    def __init__(self, p=None):
        super().__init__(p); self.done = False
    def ports_schema(self): return {'agents': {'*': {'s': {'x': {'_default': 0}}}}}
    def next_update(self, t, states):
        if self.done: return {}
        self.done = True
        return {'agents': {'_generate': [{
            'key': 'g1',
            'processes': {},
            'steps': {'inner': {'s1': S(), 's2': S()}},
            'flow': {'inner': {'s1': [], 's2': [('s1',)]}},
            'topology': {'inner': {'s1': {'s': ('s',)}, 's2': {'s': ('s',)}}},
            'initial_state': {}}]}}

if __name__ == '__main__':
    e = Engine(processes={'gen': Gen()}, topology={'gen': {'agents': ('agents',)}}, display_info=False)
    e.update(2)
    print('sequential (legacy) steps:', e._step_graph._sequential_steps)
    print('graph nodes:', list(e._step_graph._graph.nodes), 'edges:', list(e._step_graph._graph.edges))
    print('published flow:', e.flow)
    assert not e._step_graph._sequential_steps, 'generated flow steps were registered as legacy derivers'
    print('ok')
