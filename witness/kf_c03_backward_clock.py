from vivarium.core.process import Process
from vivarium.core.engine import Engine
class Adaptive(Process):
    def __init__(self, p=None):
        super().__init__(p); self.calls=0; self.seen=[]
    def ports_schema(self): return {'s': {'x': {'_default': 0.0, '_emit': True}}}
    def calculate_timestep(self, states):
        self.calls += 1
        return 5 if self.calls == 1 else 1
    def next_update(self, timestep, states):
        return {'s': {'x': timestep}}
p=Adaptive()
e=Engine(processes={'p':p}, topology={'p':{'s':('s',)}}, display_info=False)
times=[]
orig=e._emit_store_data
def spy():
    times.append(e.global_time); orig()
e._emit_store_data=spy
e.run_for(3); print('after first', e.global_time, e.front)
e.run_for(3); print('after second', e.global_time, e.front)
print(times)
