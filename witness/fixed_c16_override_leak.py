from vivarium.core.process import Process
from vivarium.core.composer import Composer, Composite

class P(Process):
    def ports_schema(self): return {'port': {'var': {'_default': 1}}}
    def next_update(self, t, s): return {}

class C(Composer):
    def generate_processes(self, config): return {'procA': P()}
    def generate_topology(self, config): return {'procA': {'port': ('store',)}}

if __name__ == '__main__':
    composer = C({'_schema': {'procA': {'port': {'var': {'_emit': True}}}}})
    c1 = composer.generate()
    # an override given for the process of THIS composite only
    c1.merge(schema_override={'procA': {'port': {'var': {'_default': 5}}}})
    c2 = composer.generate()
    s2 = c2['processes']['procA'].get_schema()
    print('composer override now:', composer.schema_override)
    print('schema of the process in the second composite:', s2)
    assert s2['port']['var']['_default'] == 1, 'override for composite 1 leaked into composite 2'
    print('ok')
