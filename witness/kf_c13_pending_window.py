"""Witnesses for the known findings C13/R13.3 (pending window).

A parallel process with timestep 2 has an update in flight at t = 1 when a
serial process with timestep 1 returns a structural update.  The store then
sends a command (schema / is_step) to the busy parallel process and the
engine raises "... is still pending".  Run:  /venv/bin/python <this file> <case>
with case in {add, move, divide}."""
import sys
from vivarium.core.process import Process
from vivarium.core.engine import Engine


class Slow(Process):
    defaults = {'time_step': 2}

    def ports_schema(self):
        return {'s': {'x': {'_default': 0}}}

    def next_update(self, timestep, states):
        return {'s': {'x': 1}}


class Structural(Process):
    defaults = {'time_step': 1, 'case': 'add'}

    def __init__(self, p=None):
        super().__init__(p)
        self.done = False

    def ports_schema(self):
        return {'agents': {'*': {'y': {'_default': 0}}}, 'other': {}}

    def next_update(self, timestep, states):
        if self.done:
            return {}
        self.done = True
        case = self.parameters['case']
        if case == 'add':
            return {'agents': {'_add': [{'key': 'new', 'state': {'y': 1}}]}}
        if case == 'move':
            return {'agents': {'_move': [{'source': 'cell',
                                          'target': 'other'}]}}
        if case == 'divide':
            return {'agents': {'_divide': {
                'mother': 'cell',
                'daughters': [{'key': 'd1'}, {'key': 'd2'}]}}}


def main(case):
    slow = Slow({'_parallel': True})
    e = Engine(
        processes={'agents': {'cell': {'slow': slow}},
                   'st': Structural({'case': case})},
        topology={'agents': {'cell': {'slow': {'s': ('s',)}}},
                  'st': {'agents': ('agents',), 'other': ('elsewhere',)}},
        initial_state={'agents': {'cell': {'s': {'x': 0}, 'y': 0}}},
        display_info=False)
    try:
        e.update(4)
        print(case, ': no error - not reproduced')
    except RuntimeError as err:
        print(case, ': DEFECT CONFIRMED -', str(err)[:110])
    finally:
        try:
            e.end()
        except Exception as err:       # noqa
            print('end():', type(err).__name__)


if __name__ == '__main__':
    main(sys.argv[1] if len(sys.argv) > 1 else 'add')
