"""A compartment deleted and re-created at the same path in ONE update: the
new process inherits the front entry (due time and update in flight) of the
old one."""
from vivarium.core.engine import Engine
from vivarium.core.process import Process

class Slow(Process):
    defaults = {'timestep': 3.0, 'tag': 'old'}
    def ports_schema(self):
        return {'pool': {'x': {'_default': 0.0, '_emit': True}}}
    def next_update(self, timestep, states):
        return {'pool': {'x': 100.0 if self.parameters['tag'] == 'old' else 1.0}}

class Swap(Process):
    """on its second call (applied at t=2): 'delete' removes agents/a,
    'generate' creates a fresh agents/a - two processes, one batch"""
    defaults = {'timestep': 1.0, 'what': 'delete'}
    def __init__(self, parameters=None):
        super().__init__(parameters)
        self.calls = 0
    def ports_schema(self):
        return {'agents': {'*': {}}}
    def next_update(self, timestep, states):
        self.calls += 1
        if self.calls == 2:
            if self.parameters['what'] == 'delete':
                return {'agents': {'_delete': ['a']}}
            new = Slow({'tag': 'new', 'timestep': 3.0})
            return {'agents': {
                '_generate': [{
                    'key': 'a',
                    'processes': {'slow': new},
                    'topology': {'slow': {'pool': ('pool',)}},
                    'initial_state': {'pool': {'x': 0.0}}}]}}
        return {}

if __name__ == '__main__':
    sim = Engine(
        processes={'1_delete': Swap({'what': 'delete'}),
                   '2_generate': Swap({'what': 'generate'}),
                   'agents': {'a': {'slow': Slow()}, 'b': {'slow': Slow({'tag': 'b', 'timestep': 8.0})}}},
        topology={'1_delete': {'agents': ('agents',)},
                  '2_generate': {'agents': ('agents',)},
                  'agents': {'a': {'slow': {'pool': ('pool',)}}, 'b': {'slow': {'pool': ('pool',)}}}},
        progress_bar=False)
    sim.update(8)
    data = sim.emitter.get_data()
    xs = {t: row['agents']['a']['pool']['x'] for t, row in data.items() if 'a' in row.get('agents', {})}
    print(xs)
    # the new process entered at t=2 with timestep 3: its updates land at 5 and 8
    assert xs[3.0] == 0.0, ('x changed at t=3: the update in flight of the deleted process was applied to the new compartment', xs)
    assert xs[5.0] == 1.0 and xs[8.0] == 2.0, xs
    print('ok')
