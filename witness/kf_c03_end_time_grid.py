"""end_time = global_time + interval is not put back on the time grid."""
from vivarium.core.engine import Engine
from vivarium.core.process import Process

class P(Process):
    defaults = {'timestep': 0.1}
    def ports_schema(self):
        return {'pool': {'x': {'_default': 0.0, '_emit': True}}}
    def next_update(self, timestep, states):
        return {'pool': {'x': timestep}}

if __name__ == '__main__':
    sim = Engine(processes={'p': P()}, topology={'p': {'pool': ('pool',)}},
                 global_time_precision=1, progress_bar=False)
    sim.update(0.1)
    times = [sim.global_time]
    try:
        sim.update(0.2)
    except Exception as e:
        print('raised:', type(e).__name__, str(e)[:200])
        raise SystemExit(1)
    times.append(sim.global_time)
    print(times, sorted(sim.emitter.get_data()))
    assert sim.global_time == 0.3, sim.global_time
    print('ok')
